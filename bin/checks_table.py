"""Static description of every check: legs to run, build kinds, what counts as non-trivial, what the
monitors must have observed for a run to count, assumptions. Read by bin/check and bin/mkmanifest."""

TARGET = "x86_64-unknown-linux-gnu"

PROFILE_BUILD = {
    # library with overflow checks + debug assertions, everything optimised (main profile)
    "release": {"cmd": ["cargo", "build", "--release", "-p", "bpv"], "bin": "target/release/bpv"},
    # exactly what a downstream release build ships
    "plain": {"cmd": ["cargo", "build", "--profile", "plain", "-p", "bpv"], "bin": "target/plain/bpv"},
    # library + harness at opt-level 0, dependencies optimised
    "lib0": {"cmd": ["cargo", "build", "--profile", "lib0", "-p", "bpv"], "bin": "target/lib0/bpv"},
    "asan": {
        "cmd": ["cargo", "+nightly", "build", "--release", "-p", "bpv", "--no-default-features", "--target", TARGET,
                "--target-dir", "target/asan"],
        "env": {"RUSTFLAGS": "-Zsanitizer=address -Cforce-frame-pointers=yes"},
        "bin": f"target/asan/{TARGET}/release/bpv",
    },
    "tsan": {
        "cmd": ["cargo", "+nightly", "build", "--release", "-p", "bpv", "--no-default-features", "-Zbuild-std",
                "--target", TARGET, "--target-dir", "target/tsan"],
        "env": {"RUSTFLAGS": "-Zsanitizer=thread"},
        "bin": f"target/tsan/{TARGET}/release/bpv",
    },
}

COMMON_ASSUMPTIONS = [
    "runtime monitoring: the verdict covers exactly the executions listed here, nothing else",
    "trusted base of the oracles: curve25519-dalek (Scalar, Ristretto, hash-to-group), merlin's STROBE (the probe copy only adds logging), sha3, blake2",
    "events with probability < 2^-200 (hash collisions, a random scalar hitting zero, Schwartz-Zippel misses) are ignored",
]

CHECKS = {}

CHECKS["C01"] = {
    "title": "Completeness",
    "level": "exploration",
    "technique": "runtime monitoring: lattice workload over two groups, residual monitor at the MSM boundary, reference-verifier oracle, fault-injected prover RNG",
    "design_ref": "DESIGN.md section 4 C01",
    "legs": [
        {"name": "fm", "shards": 16},
        {"name": "ris", "shards": 16},
    ],
    "rule": "cases = (bits, aggregation, capacity, extension degree) lattice x value class x promise class x seed x prover-RNG fault model, "
            "on the free-module group and on Ristretto; a case is non-trivial when the prover ran and each of the three verify modes ran on it; "
            "distinct = distinct (group, configuration, values, promises, seededness, context, RNG model)",
    "require": {"quick": {"proofs": 200, "verifies": 1200, "residuals_observed": 400, "reference_verdicts": 200},
                "thorough": {"proofs": 5000, "verifies": 30000, "residuals_observed": 10000, "reference_verdicts": 5000}},
    "assumptions": COMMON_ASSUMPTIONS + ["values are sampled at the boundaries 0, 1, 2^(n-1), 2^n-1, promise and at random; 2^64 values are not enumerated"],
    "level_text": "Executes the real prover and verifier over the whole configuration lattice (all seven bit lengths, aggregation 1..32, "
                  "capacity >= aggregation, extension degree 1..6) with boundary values, every promise class, seeded and unseeded, seven prover-RNG "
                  "fault models, all three verify modes; over the free-module group the monitor also sees that the accepted residual is the zero "
                  "vector; an independent reference verifier must accept the same bytes. Aggregates regularly contain degenerate members (an identity commitment = value 0 with an all-zero mask, the same "
                  "commitment at two positions), and statement, witness and proof are also used through clone_from() copies. Held-on-K-executions, not a proof.",
    "level_note": "Assumes the sampled lattice and value classes are representative; trusted base: dalek scalar/point arithmetic, merlin STROBE, harness free-module group.",
}

CHECKS["C02"] = {
    "title": "Soundness: the verifier enforces exactly the BP+ relation",
    "level": "exploration",
    "technique": "runtime monitoring: verifier's final MSM captured over a free-module group and compared coefficient-by-coefficient with an explicit-folding reference evaluated at the challenges observed at the merlin boundary; differential verdict oracle incl. dishonest provers; shape-refusal monitor",
    "design_ref": "DESIGN.md section 4 C02",
    "legs": [
        {"name": "fm-coeff", "shards": 16},
        {"name": "fm-verdict", "shards": 16},
        {"name": "ris-verdict", "shards": 16},
    ],
    "rule": "fm-coeff: one case = one (configuration, proof family) or small mixed batch whose final multiscalar multiplication was captured; "
            "non-trivial = the library reached the final check and its residual vector was compared with w * reference residual on every coordinate; "
            "verdict legs: one case = one (instance, input) pair where input ranges over honest, every single-element alteration, random well-formed, "
            "and four dishonest-prover strategies; distinct = distinct (group, instance, input name)",
    "require": {"quick": {"final_msm_captured": 300, "coefficients_compared": 50000, "verdict_comparisons": 4000, "dishonest_provers": 200,
                          "challenges_observed": 2000, "batches_compared": 30},
                "thorough": {"final_msm_captured": 8000, "coefficients_compared": 2000000, "verdict_comparisons": 100000, "dishonest_provers": 3000,
                             "challenges_observed": 50000, "batches_compared": 300}},
    "assumptions": COMMON_ASSUMPTIONS + [
        "decides exactness of the verifier's linear combination at sampled random points per configuration (Schwartz-Zippel), not the cryptographic soundness theorem of the paper",
        "for bits*aggregation = 1 no forged proof is constructible through the public API (from_bytes refuses zero rounds); only honest and statement-altered inputs are used there",
        "the reference treats identity points in A, A1, B, L, R, H, G as refusals, as the documented transcript rule does",
    ],
    "level_text": "Observes what the real verifier computes: over the free-module group the final multiscalar multiplication is logged with every "
                  "scalar, so the weight the verifier attaches to every generator, proof element and commitment is compared with an independent "
                  "explicit-folding evaluation of the published relation, on fully symbolic proofs (every coordinate generically non-zero), on honest and "
                  "one-element-replaced proofs, and on mixed batches; on both groups the accept/reject verdict is compared with the reference on honest, "
                  "altered, random and dishonest-prover inputs (digit 2, value-promise = 2^n, value < promise, radix 3).",
    "level_note": "Exploration by sampling; a wrong coefficient agrees with the reference at a random point with probability < 2^-230. Trusted: refbp (written from the paper), dalek, merlin.",
}

CHECKS["C03"] = {
    "title": "Batch verification accepts iff every member verifies",
    "level": "exploration",
    "technique": "runtime monitoring: differential oracle batch verdict vs conjunction of singleton verdicts (library and reference), result-alignment monitor, refusal cases; batches up to 1300 members",
    "design_ref": "DESIGN.md section 4 C03",
    "legs": [{"name": "fm", "shards": 16}, {"name": "ris", "shards": 16}],
    "rule": "one case = one batch (size, composition pattern, positions of planted invalid members, verify mode) built from a pool of individually "
            "checked members with mixed aggregation factors, capacities, seeds and transcript contexts, or one refusal input; non-trivial = verify_batch ran on it and "
            "its verdict, result length and per-slot masks were compared with the expectation; distinct = distinct (group, size, pattern, invalid positions, mode)",
    "require": {"quick": {"batches": 300, "batches_beyond_one_chunk": 100, "batches_with_invalid_member_beyond_256": 20, "refusal_cases": 300, "result_slots_checked": 20000},
                "thorough": {"batches": 1500, "batches_beyond_one_chunk": 600, "batches_with_invalid_member_beyond_256": 150, "refusal_cases": 1500, "result_slots_checked": 200000}},
    "assumptions": COMMON_ASSUMPTIONS + ["batch sizes are sampled at 1..6, 17, around every multiple of 256 up to 1300; not every size",
                                         "members with different vector generators (Gi/Hi) are not constructible through the public parameter constructor and are not exercised"],
    "level_text": "Runs verify_batch on hundreds of batches (sizes 1..1300, in particular 255/256/257/511/512/513 and beyond) composed from individually "
                  "verified members with mixed aggregation, capacity, seeds and contexts, with 0/1/2/many invalid members planted at boundary positions "
                  "(0, 1, 254..257, 511, 512, last, random), in all modes, and compares verdict, result length and per-slot masks with the conjunction of "
                  "singleton verdicts of library and reference; every refusal clause (empty, length mismatches, disagreeing bit length / degree / H / G_k at "
                  "positions incl. >= 256) must be an error.",
    "level_note": "Held on the executed batches only. Trusted: refbp, harness pool construction.",
}

CHECKS["C04"] = {
    "title": "Fiat-Shamir binding",
    "level": "exploration",
    "technique": "runtime monitoring at the merlin API boundary (event-logging copy of merlin): trace-containment specification checked online per call + differential challenge-dependency oracle under single-datum perturbations, single proofs and batches",
    "design_ref": "DESIGN.md section 4 C04",
    "legs": [{"name": "fm", "shards": 16}, {"name": "ris", "shards": 16}],
    "rule": "trace cases: one prover or verifier call (or batch) whose merlin events were captured and checked against the containment specification "
            "(every datum appended to the caller's transcript lineage before the first challenge that must depend on it); differential cases: one "
            "(instance, single-datum perturbation) pair whose challenge sequences were compared position by position; non-trivial = all challenges were drawn in both runs; "
            "distinct = distinct (group, instance, perturbation name)",
    "require": {"quick": {"prover_traces": 150, "verifier_traces": 150, "batch_traces": 80, "batch_traces_beyond_one_chunk": 4, "perturbation_pairs": 6000, "challenge_pairs_compared": 50000, "data_items_checked": 10000},
                "thorough": {"prover_traces": 2500, "verifier_traces": 2500, "batch_traces": 700, "perturbation_pairs": 100000, "challenge_pairs_compared": 1000000, "data_items_checked": 200000}},
    "assumptions": COMMON_ASSUMPTIONS + [
        "integers (bit length, degree, aggregation, promise) are recognised in the trace by their little-endian value in an append of at most 8 bytes, points by their 32-byte encoding; labels are not part of this check (C19 pins the layout)",
        "prover side is decided by trace containment; the differential oracle runs on the verifier (the prover's first message changes with any input anyway)",
    ],
    "level_text": "Observes every byte string appended to and every challenge drawn from merlin transcripts during real prove and verify calls. Online "
                  "trace specification: H, each G_k, n, degree, m, every commitment, every promise and A before y; L_j, R_j before e_j; A1, B before the "
                  "final e; all on the transcript the caller supplied for that proof (batch members on their own, also in batches of 257..386 members, beyond the library's internal chunk). Differential oracle: after changing exactly "
                  "one datum (context, H, G_k, bit length, commitment, promise, A, L_j, R_j, A1, B) every challenge drawn after its absorption differs and every "
                  "earlier one is equal; None <-> Some(0) leaves all equal; re-verification under a changed context is rejected.",
    "level_note": "Held on the executed calls. Trusted: the probe (a verbatim copy of merlin 3.0.0 whose STROBE operations are untouched).",
}

CHECKS["C05"] = {
    "title": "Statement binding: any single alteration of an accepted triple is rejected",
    "level": "exploration",
    "technique": "runtime monitoring: systematic single-component mutation of accepted triples (every proof element and statement field), verdict oracle under catch_unwind, residual observed over the free-module group; also inside batches",
    "design_ref": "DESIGN.md section 4 C05",
    "legs": [{"name": "fm", "shards": 16}, {"name": "ris", "shards": 16}],
    "rule": "one case = (accepted triple, alteration of exactly one component, verifier role); alterations enumerate every scalar and point position of the proof "
            "(+1, negated, zero, random; random point, identity, undecodable, another proof's element, sibling element, swaps), round count +-1, degree byte, each commitment, "
            "commitment order, each promise, bit length, H, each G_k, G order, transcript label and messages; roles = public verifier and seed owner in both verifying modes; "
            "non-trivial = the base triple was accepted first; distinct = distinct (group, instance, alteration, role); no-op alterations (None <-> Some(0)) are asserted to stay accepted",
    "require": {"quick": {"accepted_triples": 150, "alterations_checked": 20000, "alterations_inside_batches": 4000, "noop_alterations_still_accepted": 300},
                "thorough": {"accepted_triples": 2000, "alterations_checked": 600000, "alterations_inside_batches": 40000, "noop_alterations_still_accepted": 5000}},
    "assumptions": COMMON_ASSUMPTIONS + ["replacement values are sampled (4 kinds per scalar, 5 per point), not all values of the type",
                                         "for bits*aggregation = 1 proof-side alterations cannot be built through the codec and are skipped"],
    "level_text": "For accepted triples over the lattice, alters every single component position in turn and runs the real decoder and verifier (as public "
                  "verifier and as seed owner, alone and as a member of a mixed batch): outcome must be an error, never Ok and never a panic; the None/Some(0) "
                  "promise equivalence must stay accepted. Over the free-module group the residual is recorded to show that rejections of well-shaped inputs come from the final identity.",
    "level_note": "Held on the executed alterations. Trusted: harness mutation generator.",
}

CHECKS["C06"] = {
    "title": "The prover emits a proof exactly when the witness is valid",
    "level": "exploration",
    "technique": "runtime monitoring: constructed (statement, witness) pairs with exactly one rule broken per position (incl. cross-position cancelling errors); oracle = harness predicate by construction; emitted proofs re-verified by library and reference",
    "design_ref": "DESIGN.md section 4 C06",
    "legs": [{"name": "fm", "shards": 16}, {"name": "ris", "shards": 16}],
    "rule": "one case = one prove_with_rng call on a (statement, witness) pair built by the harness to be valid or to break exactly one rule (count, degree, value +-1, one blinding "
            "component, value = 2^n or u64::MAX with a promise that brings the difference back in range, promise = value / value+1 / 2^n-1 / u64::MAX inside mixed Some/None vectors, "
            "errors that cancel across aggregate positions) at the first, middle and last position; non-trivial = the call reached the prover; distinct = distinct (group, configuration, attempt, values, promises)",
    "require": {"quick": {"prove_calls_os_rng": 1200, "prove_calls": 4000, "proofs_emitted": 1000, "refusals": 2500, "emitted_proofs_verified": 1000, "adaptive_opening_attacks": 800},
                "thorough": {"prove_calls": 60000, "proofs_emitted": 15000, "refusals": 40000, "emitted_proofs_verified": 15000}},
    "assumptions": COMMON_ASSUMPTIONS + ["the validity predicate is the harness's knowledge of which rule it broke when constructing the case"],
    "level_text": "Calls the real prover on thousands of constructed (statement, witness) pairs over the lattice, each either valid (controls and boundary values 2^n-1, value == promise) "
                  "or violating exactly one clause of the witness relation at one aggregate position, including violations that cancel across positions and an adaptive attack that shifts two "
                  "blindings by scalars the prover itself was observed to draw (transcript generators, challenges, the caller's generator) on an honest run; both entry points (`prove_with_rng` and `prove`, which draws from the operating system) must take the same decision; position constants are tried as weights as well, on blindings and values; Ok must coincide with validity, "
                  "errors must be error values (no panic), and every emitted proof must be accepted by the library verifier and the reference verifier.",
    "level_note": "Held on the executed pairs. Trusted: harness case construction, refbp.",
}

CHECKS["C07"] = {
    "title": "Minimum-value promises mean value >= promise, and bind the proof",
    "level": "exploration",
    "technique": "runtime monitoring: per-position promise substitution at proving and at verification time against an arithmetic oracle; refusal of oversized promises observed before any group arithmetic (free-module MSM log)",
    "design_ref": "DESIGN.md section 4 C07",
    "legs": [{"name": "fm", "shards": 16}, {"name": "ris", "shards": 16}],
    "rule": "prover cases: (instance, position j, promise p in {None, 0, v, v-1, v+1, v/3, 2^n-1, 2^n, 2^n+1, u64::MAX}) inside mixed Some/None vectors, expected Ok iff p <= v; "
            "verifier cases: proof made under vector p, verified under p with one position substituted by each candidate (+ base, base as Some, base+-1), in two verifying modes, "
            "expected accept iff value-wise equal (None == 0); distinct = distinct (group, instance, position, candidate, mode)",
    "require": {"quick": {"prover_promise_cases_os_rng": 900, "prover_promise_cases": 3000, "verifier_substitutions": 12000, "verifier_valuewise_equal_substitutions": 3000, "verifier_promise_does_not_fit": 2000},
                "thorough": {"prover_promise_cases": 50000, "verifier_substitutions": 200000, "verifier_valuewise_equal_substitutions": 50000, "verifier_promise_does_not_fit": 30000}},
    "assumptions": COMMON_ASSUMPTIONS + ["the H-scalar half and the transcript half of the promise handling are observed separately by C02 (coefficient of the value generator) and C04 (promise appended before y); this check decides the end-to-end behaviour"],
    "level_text": "Runs the real prover with each boundary promise at each sampled position of mixed promise vectors (accept iff promise <= value) and re-verifies honest proofs under "
                  "every single-position substitution of the promise vector (accept iff value-wise equal, None == Some(0)); promises that do not fit the bit length - one, a pair with equal high bits, or all of them - must be refused, the OS-generator entry point must take the prover's decisions too, "
                  "and over the free-module group the monitor confirms the refusal happens before the final check is evaluated.",
    "level_note": "Held on the executed substitutions. Trusted: harness arithmetic oracle (u64 comparisons).",
}

CHECKS["C08"] = {
    "title": "Batch weighting: defects in different proofs can never cancel",
    "level": "exploration",
    "technique": "runtime monitoring: batch weights read off the verifier's final MSM over the free-module group; ratio-sensitivity oracle; adaptive cancellation attack driven by the weights observed on the previous run, residual explained coordinate-wise",
    "design_ref": "DESIGN.md section 4 C08",
    "legs": [{"name": "fm-weights", "shards": 16}, {"name": "fm-round0", "shards": 16}, {"name": "ris-round0", "shards": 16}],
    "rule": "weights leg: one case = one observed verification run of a batch of 2..5 proofs (base run, run after changing one response scalar, or one round of the adaptive attack on a pair (i, j) "
            "and blinding coordinate k); non-trivial = the final multiscalar multiplication was captured and every member's weight identified; round0 legs: one case = one (batch, pair, coordinate) "
            "with defects +delta / -delta; distinct = distinct (batch, pair, coordinate, round / changed scalar)",
    "require": {"quick": {"attack_rounds_multi_coordinate": 400, "attack_rounds_with_duplicated_members": 1000, "batches_observed": 200, "weight_ratios_compared": 3000, "attack_rounds": 10000, "residuals_explained_by_weights": 10000, "equal_opposite_pairs": 1500},
                "thorough": {"batches_observed": 2000, "weight_ratios_compared": 30000, "attack_rounds": 500000, "residuals_explained_by_weights": 500000, "equal_opposite_pairs": 15000}},
    "assumptions": COMMON_ASSUMPTIONS + ["weights are only observable over the free-module group; on Ristretto only the non-adaptive equal-and-opposite attack is run",
                                         "the attack perturbs d1 components (defects that leave all Fiat-Shamir challenges unchanged and contribute exactly w*delta on one blinding-generator coordinate)"],
    "level_text": "Reads the factor with which each proof's equation enters the real verifier's batch check (the scalar paired with that proof's B in the captured final multiscalar "
                  "multiplication over the free-module group): every factor is non-zero; the ratio of two proofs' factors changes whenever r1, s1 or any d1 component of either changes; "
                  "and a cancellation attack on every pair and blinding coordinate that recomputes its offsetting defect from the factors observed on the previous run is rejected in every "
                  "round, with the captured residual equal to w_i*delta_i + w_j*delta_j on exactly that coordinate; the attack is repeated on batches in which every proof is submitted twice (identical copies, "
                  "identical defects, factors of the copies summed) and with joint perturbations of several response scalars (sum-preserving d1 shifts, a two-coordinate cancellation), in VerifyOnly and RecoverAndVerify, on public and seeded statements.",
    "level_note": "Held on the executed runs; an attacker model limited to d1 defects. Trusted: FmPoint MSM log.",
}

CHECKS["C09"] = {
    "title": "Mask recovery returns the commitment's exact mask, position by position",
    "level": "exploration",
    "technique": "runtime monitoring: recovered masks compared component-by-component with the harness's own blinding vectors (pairwise distinct components), all modes, all bit lengths x degrees, fault-injected prover RNGs; batch slot-alignment monitor up to 600 members",
    "design_ref": "DESIGN.md section 4 C09",
    "legs": [{"name": "fm", "shards": 16}, {"name": "ris", "shards": 16}],
    "rule": "single cases: (bit length, extension degree 1..6, capacity, value class, promise class, context, prover-RNG model) x verify mode, with random pairwise-distinct blinding components; "
            "batch cases: random arrangements of seeded, unseeded and aggregated members (sizes 3..600) x mode; non-trivial = verify_batch returned and every slot/component was compared; "
            "distinct = distinct (group, instance, RNG model, mode) or (batch, size, mode)",
    "require": {"quick": {"recoveries": 3000, "mask_components_compared": 5000, "batch_recoveries": 200, "batch_slots_compared": 8000},
                "thorough": {"recoveries": 15000, "mask_components_compared": 25000, "batch_recoveries": 2000, "batch_slots_compared": 200000}},
    "assumptions": COMMON_ASSUMPTIONS,
    "level_text": "Proves under a seed and recovers with the same seed, for every bit length and every extension degree with pairwise distinct blinding components, under seven prover-RNG "
                  "fault models: both recovering modes must return exactly the blinding vector, component by component and in order; verify-only, unseeded and aggregated members must yield None; "
                  "in batches (up to 600 members, mixed composition) slot i must hold member i's mask.",
    "level_note": "Held on the executed recoveries. Trusted: harness bookkeeping of blinding vectors, refbp nonce derivation.",
}

CHECKS["C10"] = {
    "title": "Mask recovery is keyed by the seed and never changes the verdict",
    "level": "exploration",
    "technique": "runtime monitoring: wrong-seed recovery oracle incl. structured single-byte seed differences; verdict-invariance oracle across {no, right, wrong seed} x modes on valid and systematically altered proofs; RecoverOnly vs RecoverAndVerify agreement",
    "design_ref": "DESIGN.md section 4 C10",
    "legs": [{"name": "fm", "shards": 16}, {"name": "ris", "shards": 16}],
    "rule": "wrong-seed cases: (instance, wrong seed in {seed+1, random, negated, single byte i differs}) x recovering mode; verdict cases: (instance, input in {honest, every single-element alteration}) "
            "evaluated under 3 seed settings x 2 verifying modes (6 verdicts must agree) plus RecoverOnly; non-trivial = all verdicts were obtained; distinct = distinct (group, instance, seed variant / input)",
    "require": {"quick": {"wrong_seed_recoveries": 2000, "verdicts_compared": 20000, "accepted_inputs": 100, "rejected_inputs": 3000, "recover_only_vs_recover_and_verify": 100, "shared_seed_batches": 100, "adaptive_pair_verdicts": 600},
                "thorough": {"wrong_seed_recoveries": 20000, "verdicts_compared": 200000, "accepted_inputs": 1000, "rejected_inputs": 30000, "recover_only_vs_recover_and_verify": 1000}},
    "assumptions": COMMON_ASSUMPTIONS + ["a wrong seed recovering the true mask by chance has probability 2^-252 per component"],
    "level_text": "For seeded single-commitment proofs over all bit lengths and degrees: recovery with any different seed (including seeds differing in one byte position only, e.g. the top byte) "
                  "returns Ok with a mask that shares no component with the true one; the accept/reject verdict of honest and of every singly-altered proof is identical with no seed, the right "
                  "seed and a wrong seed, in VerifyOnly and RecoverAndVerify; RecoverOnly returns what RecoverAndVerify returns on accepted inputs, also member by member in batches whose statements share one seed "
                  "(own proof, another proof made with that seed, a proof made under another seed, an unseeded statement in between); a pair of individually invalid proofs whose defects are tuned to the "
                  "batch factors read on the previous run is rejected in VerifyOnly and in RecoverAndVerify alike, with and without seeds.",
    "level_note": "Held on the executed runs. Trusted: harness mutation generator.",
}

CHECKS["C11"] = {
    "title": "Generators are distinct, deterministic and derived as specified",
    "level": "exploration",
    "technique": "runtime monitoring: exhaustive sweep of (bits, capacity, degree) parameter sets compared point-by-point with an independent re-derivation from the documentation; distinctness by hash set; opaque precomputed table probed through its public operation; hash-to-group inputs and table construction observed over the free-module group; concurrent construction",
    "design_ref": "DESIGN.md section 4 C11",
    "legs": [{"name": "ris", "shards": 16}, {"name": "fm", "shards": 16}, {"name": "threads", "shards": 4}],
    "rule": "one case = one parameter set (bits in {1..64} x capacity in {1,2,4,8,16,32[,64,128]} x rotating degree) or one Pedersen generator set (degree 1..6) or one concurrent-construction round; "
            "non-trivial = every generator of the set was compared with the reference derivation and entered the distinctness set, and the table was probed; distinct = distinct parameter tuples",
    "exhaustive": {"quick": False, "thorough": True},
    "require": {"quick": {"parameter_sets_checked": 44, "pedersen_sets_checked": 6, "points_compared_with_derivation": 15000, "table_probes": 300, "fm_constructions_observed": 44, "hash_inputs_compared": 15000, "concurrent_constructions": 20, "iterator_positional_reads": 3000},
                "thorough": {"parameter_sets_checked": 56, "pedersen_sets_checked": 6, "points_compared_with_derivation": 60000, "table_probes": 400, "fm_constructions_observed": 56, "hash_inputs_compared": 60000, "concurrent_constructions": 150}},
    "assumptions": COMMON_ASSUMPTIONS + ["'as specified' = the derivation written in the crate documentation and source comments at the pinned commit: SHAKE256(\"GeneratorsChain\" || 'G'/'H' || LE32(party)) in 64-byte blocks, SHA3-512(\"RISTRETTO_MASKING_BASEPOINT_k\"), value generator = Ristretto basepoint",
                                         "thorough sweeps the whole stated space (7 bit lengths x capacities up to 128 x degrees 1..6 for the Pedersen part) plus wide tables with up to 2048 parties (party index beyond one byte); racing *first* use of the cached blinding generators needs fresh processes and is exercised by C18"],
    "level_text": "Sweeps every supported bit length against capacities up to 32 (thorough: 128), tables with 512 (thorough: up to 2048) parties, and every extension degree: each point returned by the public accessors equals an independent "
                  "derivation from the documentation; all 2*n*c + d + 1 encodings of a set are pairwise distinct and none is the identity; compressed accessors are the encodings of the points; "
                  "the opaque precomputed table is probed with random and unit scalar vectors against the naive interleaved sum; over the free-module group the exact hash-to-group inputs and the "
                  "points handed to the table constructor are observed; positional access on the generator iterators (nth, skip, step_by, size_hint, last, count, also after a partial walk) is compared with the collected vectors; construction is repeated, reordered and run on 2..16 threads.",
    "level_note": "The space is finite; the thorough tier enumerates it completely for the stated bounds. Trusted: refbp derivation, sha3, dalek hash-to-group.",
}

CHECKS["C12"] = {
    "title": "Proof validity does not depend on generator capacity",
    "level": "exploration",
    "technique": "runtime monitoring: prove with capacity c_p, verify with every c_v (all modes), every rotation of mixed-capacity batches; generator prefixes compared across capacities; static-scalar count observed at the MSM boundary over the free-module group",
    "design_ref": "DESIGN.md section 4 C12",
    "legs": [{"name": "fm", "shards": 16}, {"name": "ris", "shards": 16}],
    "rule": "single cases: (bits, aggregation m, prover capacity c_p, verifier capacity c_v, mode) over all bit lengths, m in 1..32 and all ordered pairs of powers of two in [m, 32] (thorough 64); "
            "batch cases: (mixture of (aggregation, capacity) members, rotation, mode) incl. mixtures where the largest bits*aggregation member has a smaller capacity than another member, ties, and a first member "
            "that is not the largest; members are proved under a capacity different from the one they are verified under; distinct = distinct tuples",
    "require": {"quick": {"cross_capacity_verifications": 2500, "generator_prefixes_compared": 800, "mixed_capacity_batches": 1500, "static_scalar_counts_checked": 1500},
                "thorough": {"cross_capacity_verifications": 10000, "generator_prefixes_compared": 3000, "mixed_capacity_batches": 10000, "static_scalar_counts_checked": 8000}},
    "assumptions": COMMON_ASSUMPTIONS + ["capacities are swept up to 32 (quick) / 64 (thorough); on Ristretto bits*capacity is bounded by 2048"],
    "level_text": "Executes prove with one parameter object and verify with another of every other capacity >= m (all three modes, masks checked), alone and inside every rotation of batches whose "
                  "members use different capacities; compares generator (party, index) across capacities; over the free-module group observes that the number of static scalars handed to the "
                  "precomputed table equals the table size (the condition whose violation is a backend assertion failure on Ristretto).",
    "level_note": "Held on the executed combinations. Trusted: harness bookkeeping.",
}

CHECKS["C13"] = {
    "title": "Every blinding nonce in a proof is fresh and unpredictable",
    "level": "exploration",
    "technique": "runtime monitoring: nonces read back as coordinates of the library prover's proof points over the free-module group, cross-checked with the transcript-RNG draws logged at the merlin boundary and with an independent implementation of the seed-nonce derivation; fault-injected external RNGs",
    "design_ref": "DESIGN.md section 4 C13",
    "legs": [{"name": "fm", "shards": 16}],
    "rule": "one case = one proof produced by the real prover over the free-module group (lattice configuration x seeded/unseeded x external RNG in {healthy, healthy', two fault models}) whose 2 + d*(3 + 2*rounds) "
            "nonces were all extracted and consistency-checked (B[H] = r*y*s); distinct = distinct (instance, RNG model)",
    "require": {"quick": {"long_run_proofs": 600, "os_rng_proof_pairs": 70, "proofs_inspected": 1500, "nonces_extracted": 40000, "seed_nonces_compared": 4000, "rng_draw_sets_compared": 1500, "seeded_run_pairs": 50},
                "thorough": {"proofs_inspected": 15000, "nonces_extracted": 400000, "seed_nonces_compared": 40000, "rng_draw_sets_compared": 15000, "seeded_run_pairs": 800}},
    "assumptions": COMMON_ASSUMPTIONS + ["no Ristretto leg is possible (nonces cannot be read off curve points); the prover is group-generic code, which is what makes the free-module observation representative",
                                         "'unpredictable' is observed as: distinct within a proof, never repeated across differing runs (per shard), equal to the transcript-RNG draws, and (C14) keyed by the witness"],
    "level_text": "Reads every nonce of real proofs (alpha_k, dL_jk, dR_jk, d_k, eta_k from the blinding-generator coordinates of A, L_j, R_j, A1, B; r and s from A1's coordinates on the first vector "
                  "generators and the logged challenges): all non-zero and pairwise distinct within a proof; without a seed the values never repeat across runs and equal, as a set, the scalars drawn from the "
                  "transcript RNG; with a seed the seed-derived ones equal the documented Blake2b derivation exactly (independent implementation) while r and s still come from the RNG and differ between runs; "
                  "external RNG healthy, all-zero, all-ones, short-period, counter, and a source whose try_fill_bytes fails while fill_bytes delivers; proofs made through RangeProof::prove (operating system's generator) are read the same way, in pairs and in runs of 120..300 proofs of one statement on one thread, where no RNG-derived nonce may ever repeat.",
    "level_note": "Held on the inspected proofs. Trusted: FmPoint coordinate extraction (self-checked via B[H] = r*y*s), refbp nonce derivation.",
}

CHECKS["C14"] = {
    "title": "Prover randomness is hedged against failure of the external RNG",
    "level": "fault_enumeration",
    "technique": "runtime monitoring under injected RNG faults: transcript-RNG draws and their lineage (fork from proving transcript, rekey with full witness bytes, finalise with external randomness, built from the then-current transcript) observed at the merlin boundary; paired runs differing in exactly one input, incl. different witnesses of the same commitment via degenerate generators",
    "design_ref": "DESIGN.md section 4 C14",
    "legs": [{"name": "fm", "shards": 16}, {"name": "ris", "shards": 16}],
    "rule": "one case = a pair of prover runs under the same faulty external RNG stream (all-zero, all-ones, period 1/2/32, counter) differing in exactly one of: transcript context, one promise, one commitment, "
            "or the witness with identical public data (G_a = G_b with components re-split or swapped for (a,b) in {(0,1),(d-2,d-1),(0,d-1)}; H = G_0 with (v,r) vs (v+1,r-1)); non-trivial = both runs produced a proof "
            "and their transcript-RNG draws and event lineages were compared; distinct = distinct (group, configuration, seededness, differing input, fault model)",
    "require": {"quick": {"run_pairs": 2000, "same_commitment_witness_pairs": 700, "draw_lineages_checked": 100000, "identical_run_pairs": 400},
                "thorough": {"run_pairs": 12000, "same_commitment_witness_pairs": 4000, "draw_lineages_checked": 600000, "identical_run_pairs": 2500}},
    "assumptions": COMMON_ASSUMPTIONS + ["the RNG-derived nonces are observed as the 64-byte outputs of the transcript RNG (C13 shows over the free-module group that these are exactly the nonces used)",
                                         "fault models: constant, short-period and counter streams, and replay of the identical stream in both runs of a pair"],
    "level_text": "Hands the real prover a failed external RNG and observes, at the merlin boundary, every value it draws from its transcript RNG and how that RNG was built. Pairs of runs that differ in "
                  "the witness only (same commitments, via degenerate generators), in the context, or in one statement field must share no draw; identical runs must give identical proofs; every draw must come from "
                  "an RNG forked from the proving transcript after the latest prover message, rekeyed with the complete serialised witness and finalised with external randomness; the external RNG must be consumed "
                  "only through those finalisations.",
    "level_note": "Fault enumeration over six RNG fault models x the listed single-input differences; held on the executed pairs. Trusted: the merlin probe.",
}

CHECKS["C15"] = {
    "title": "Proof encoding is a canonical bijection with an exact acceptance set",
    "level": "exploration",
    "technique": "runtime monitoring: decoder run on an exhaustive (tag x length x filler) sweep, scalar-canonicity boundary values in every scalar slot, random and mutation-fuzzed strings, and on every kind of prover output; oracle = independent acceptance predicate (own big-integer comparison with the group order) + re-encode equality + bincode/serde equivalence",
    "design_ref": "DESIGN.md section 4 C15",
    "legs": [{"name": "fm", "shards": 16}, {"name": "ris", "shards": 16}, {"name": "miri", "runner": "miri", "miri_seeds": 1, "tiers": ["thorough"]}],
    "rule": "sweep: every (first byte 0..=255, length 0..=1314) with three fillers (zeros, canonical pattern, 0xFF) - counted as distinct (tag, length) classes; boundary: every scalar slot x {l-1, l, l+1, l+2^64, 2^252+l, "
            "2^255-1, 2^256-1, high bit, 2^252, 0} for degrees 1..6 and 1/2/7 rounds; fuzz: random valid encodings under 8 mutation operators; prover outputs: one per (bits, aggregation) pair of the lattice with rotating degree; "
            "non-trivial = from_bytes ran and its result was compared with the predicate",
    "exhaustive": {"quick": False, "thorough": False},
    "require": {"quick": {"equality_probes": 10000, "long_encoding_cases": 70, "scalar_limb_grid_cases": 20000, "decodes": 2000000, "accepted_strings": 20000, "reencodes_compared": 20000, "scalar_boundary_cases": 1900, "serde_decodes": 100000, "prover_outputs": 120, "serde_roundtrips": 110, "fuzzed_strings": 200000},
                "thorough": {"decodes": 4000000, "accepted_strings": 100000, "reencodes_compared": 100000, "scalar_boundary_cases": 1900, "serde_decodes": 500000, "prover_outputs": 120, "serde_roundtrips": 110, "fuzzed_strings": 2000000}},
    "assumptions": COMMON_ASSUMPTIONS + ["the (tag, length) sweep is exhaustive up to 1314 bytes (40 elements beyond the largest honest proof) for three fill patterns, not for all contents",
                                         "the serde form is exercised through bincode 1.x (the crate's own dev-dependency)"],
    "level_text": "Runs the real decoder on more than two million byte strings: the complete (first byte x length) grid up to 1314 bytes under three fill patterns, every scalar slot at the canonicity "
                  "boundary of the group order (independent little-endian comparison; interior points of [2^252, l); every combination of {0, l's limb, l's limb +- 1, all ones, random} over the four 64-bit limbs; every single-byte alteration of l and l - 1), random and mutated encodings; acceptance must equal the stated set exactly, every accepted string must re-encode to "
                  "itself, encodings with up to 1000 folding rounds (with a dangling element, a stray byte, a byte missing) are classified too, decoded proofs compare equal exactly when their encodings are equal (also across lengths), and the serde/bincode form must accept and produce exactly the same strings. Every kind of proof the prover outputs over the lattice (up to 64x32) must round-trip with the stated length.",
    "level_note": "Known finding (not a false alarm): prover outputs with zero folding rounds are refused by the decoder; listed in known_findings.json.",
}

CHECKS["C17"] = {
    "title": "Constructors accept exactly the documented parameter space",
    "level": "exploration",
    "technique": "runtime monitoring: exhaustive enumeration of the stated finite input space of every validating constructor under catch_unwind; oracle = independently written domain predicate + read-back of accessors (no silent adjustment)",
    "design_ref": "DESIGN.md section 4 C17",
    "legs": [{"name": "fm", "shards": 16}, {"name": "ris", "shards": 16}],
    "rule": "one case = one constructor call: RangeParameters::init for bits 0..=130 x capacity 0..=130 (both groups; on Ristretto valid sets up to capacity 32 (quick) / 128 (thorough) build real tables); "
            "RangeStatement::init for 0..=17 commitments x capacity {1,2,4,8,16} x promise count {0, m-1, m, m+1} x seed; RangeWitness::init for 0..=17 openings x blinding counts 0..=8 uniform and with one odd opening at each position "
            "(+ counts 255..263, 512.., 65537..); ExtendedMask::assign and PedersenGens::commit for length 0..=8 x degree 1..=6; ExtensionDegree::try_from for all u8 and usize 0..=300 and around 2^8, 2^16, 2^32, 2^48, MAX; "
            "each enumerated input is a distinct case",
    "exhaustive": {"quick": True, "thorough": True},
    "require": {"quick": {"parameter_constructions": 34000, "parameter_sets_built": 80, "statement_constructions": 1300, "witness_constructions": 3000, "mask_and_commit_constructions": 108, "degree_conversions": 600},
                "thorough": {"parameter_constructions": 34000, "parameter_sets_built": 110, "statement_constructions": 1300, "witness_constructions": 3000, "mask_and_commit_constructions": 108, "degree_conversions": 600}},
    "assumptions": COMMON_ASSUMPTIONS + ["the 'documented domain' is the one in the property statement; the enumeration is complete for the stated finite ranges, larger arguments are sampled only around powers of two",
                                         "quick skips building real Ristretto tables for the valid parameter sets with capacity 64 and 128 (thorough builds them)"],
    "level_text": "Calls every validating constructor on its whole stated finite input space (17 161 (bits, capacity) pairs per group plus capacities 255..4096 and 65535, every statement / witness / mask / commitment shape, every u8 and the listed usize values), "
                  "also `commit` on a generator set holding more blinding generators than its declared degree, each under catch_unwind: Ok must coincide with an independently written predicate of the documented domain, and whenever a constructor succeeds the accessors must return exactly what was requested.",
    "level_note": "Finite space enumerated completely (exhaustive for the stated bounds). Trusted: the harness's domain predicates.",
}

CHECKS["C16"] = {
    "title": "Decoding and verification never panic on untrusted input",
    "level": "exploration",
    "technique": "runtime monitoring in sandboxed child processes: hostile decoder/verifier inputs under catch_unwind with an allocation-tracking global allocator (peak / largest request vs a linear bound) and a logical step counter over the free-module group; abnormal child exit attributed to the announced case; checked and plain builds; thorough adds an AddressSanitizer build",
    "design_ref": "DESIGN.md section 4 C16",
    "legs": [
        {"name": "fm", "shards": 16},
        {"name": "ris", "shards": 16},
        {"name": "ris-plain", "leg": "ris", "build": "plain", "shards": 16, "args": ["profile=plain"]},
        {"name": "ris-asan", "leg": "ris", "build": "asan", "shards": 16, "tiers": ["thorough"], "args": ["profile=asan"],
         "env": {"ASAN_OPTIONS": "halt_on_error=1:abort_on_error=1:detect_leaks=0:allocator_may_return_null=1"}},
        {"name": "miri", "runner": "miri", "miri_seeds": 1, "tiers": ["thorough"]},
    ],
    "rule": "one case = one hostile input: byte strings into from_bytes / serde (random, truncated, wrong tag, 1 MiB, 2^16 rounds, lying length prefix); every proof shape (degree 1..6 x rounds 1..70, 31..33, 63..65, 128, 255, 2^12, 2^16) "
            "against 8 statement shapes x degree 1..6 x promise/seed/mode variants; identity, undecodable and non-canonical points and zero scalars at every position of honest proofs; batch shapes with mismatched sequence lengths, "
            "mixed capacities / degrees / bit lengths; honest proofs against hostile statements; non-trivial = the call under observation ran in the sandbox with the monitors armed; distinct = distinct case numbers per leg",
    "require": {"quick": {"hostile_cases": 60000, "cases_decode": 12000, "cases_shape": 12000, "cases_element": 5000, "cases_batch": 12000, "cases_statement": 5000, "allocations_tracked": 1000000},
                "thorough": {"hostile_cases": 800000, "cases_decode": 150000, "cases_shape": 150000, "cases_element": 60000, "cases_batch": 150000, "cases_statement": 60000, "allocations_tracked": 10000000}},
    "deadline_s": {"quick": 1500, "thorough": 10000},
    "assumptions": COMMON_ASSUMPTIONS + ["'time proportional to the input size' is decided on logical steps (scalar x coordinate multiplications over the free-module group) and on allocation sizes, with linear bounds and generous constants; the wall-clock watchdog only yields INCONCLUSIVE",
                                         "statements are built through the validating constructors; Pedersen generator fields are not tampered with here"],
    "level_text": "Feeds the real decoder and verifier tens of thousands of hostile inputs inside child processes (checked build - overflow checks in every crate, since the library's generic code is code-generated in the harness crate, and debug assertions in the library - and the plain release build; Ristretto for the real backend "
                  "assertions, free-module group for step counting): no panic (catch_unwind), no abnormal process exit (abort, stack overflow, allocation failure), largest single allocation and peak live bytes within a linear "
                  "bound of input size and table size, logical steps within a linear bound; hostile statements include unrelated points, identity commitments (one or all) and repeated commitments against honest proofs; every hostile byte string is also decoded from a buffer that ends at / starts after an inaccessible page (a read outside the slice faults), and every heap block carries a red zone that is checked when it is released (a write past its end is reported). Thorough repeats the Ristretto workload under AddressSanitizer.",
    "level_note": "Held on the executed inputs. A clean sanitizer run is not memory safety; the library has no unsafe code of its own, the sanitizer leg covers the dependencies' unsafe reached from hostile input.",
}

CHECKS["C18"] = {
    "title": "Proving and verifying are pure, repeatable and thread-safe",
    "level": "exploration",
    "technique": "runtime monitoring: history-independence oracle (probe results after random call histories vs a virgin process), concurrent stress with shared parameter objects against a sequential baseline with measured call overlap, racing first use of the cached generators in fresh processes; the concurrent legs repeated under ThreadSanitizer (thorough: also Miri with many seeds)",
    "design_ref": "DESIGN.md section 4 C18",
    "legs": [
        {"name": "fm-history", "shards": 8},
        {"name": "ris-history", "shards": 8},
        {"name": "threads", "shards": 6},
        {"name": "race", "shards": 8},
        {"name": "repeat", "shards": 8},
        {"name": "threads-tsan", "leg": "threads", "build": "tsan", "shards": 4, "sanitizer": "tsan", "args": ["profile=tsan"]},
        {"name": "race-tsan", "leg": "race", "build": "tsan", "shards": 4, "sanitizer": "tsan", "args": ["profile=tsan"]},
        {"name": "miri", "runner": "miri", "miri_seeds": 16, "tiers": ["thorough"]},
    ],
    "rule": "history cases: a random sequence of 3..12 calls (prove, verify, batches failing mid-way on an undecodable point / round mismatch / inconsistency / identity point / final check, decode, parameter construction, recovery) "
            "followed by a fixed probe set whose digest (proof bytes, verdicts, masks, generator encodings) is compared with the digest from a virgin process, on the same thread and on a fresh thread; threads cases: one round of T in {2,4,8,16} threads "
            "each running all jobs (prove, three verify modes, clone/drop parameters, tampered verify) over clones of one parameter object in its own random order with jitter; race cases: one fresh process with T in {2,3,6,8,12,16} threads making the first-ever "
            "generator calls; non-trivial = results were compared (and for threads: overlapping call pairs were observed)",
    "require": {"quick": {"histories": 80, "probe_comparisons": 160, "virgin_process_probes": 8, "parameter_churn_histories": 20, "parameter_churn_operations": 150, "concurrent_rounds": 10, "concurrent_results_compared": 1000, "overlapping_call_pairs": 1000, "fresh_processes": 70, "racing_first_calls": 400, "sanitizer_processes": 8, "repeated_batches": 8, "repetitions_compared": 70},
                "thorough": {"histories": 700, "probe_comparisons": 1400, "virgin_process_probes": 16, "concurrent_rounds": 70, "concurrent_results_compared": 15000, "overlapping_call_pairs": 10000, "fresh_processes": 2400, "racing_first_calls": 15000, "sanitizer_processes": 8}},
    "deadline_s": {"quick": 1500, "thorough": 10000},
    "assumptions": COMMON_ASSUMPTIONS + ["explores the schedules the OS scheduler, harness jitter and ThreadSanitizer produce, not all interleavings", "TSan only understands synchronisation it intercepts; std is rebuilt instrumented (-Zbuild-std) so no uninstrumented library is involved"],
    "level_text": "Runs fixed probe calls after random call histories (including calls that fail half-way through a batch, and histories that construct, keep alive, drop and re-construct large parameter sets "
                  "before a probe that builds each of them afresh and proves over it) and compares every result bit with a virgin process; runs T threads over clones of one parameter object "
                  "(one shared Arc'd precomputation; prove, verify in three modes, clone, tampered proof, serde round trip) against a sequential baseline and reports how many call pairs actually overlapped; lets T threads make their first calls over clones of a parameter object nobody has used before; races the first use of the once-initialised generator statics in fresh processes; repeats the concurrent legs under ThreadSanitizer, "
                  "where any report is a violation.",
    "level_note": "Held on the observed schedules only. Trusted: ThreadSanitizer, harness baseline.",
}

CHECKS["C19"] = {
    "title": "Wire compatibility with the released protocol and a reference implementation",
    "level": "exploration",
    "technique": "runtime monitoring against recorded golden vectors (proofs, masks, generator encodings recorded from the pinned tree with pristine merlin) and differential cross-implementation runs with the independent prover/verifier/recovery, byte for byte over Ristretto, incl. challenge sequences observed at the merlin boundary vs the documented transcript layout",
    "design_ref": "DESIGN.md section 4 C19",
    "legs": [{"name": "vectors", "shards": 16}, {"name": "cross", "shards": 16}],
    "rule": "vector cases: each of the 62 recorded proofs (every bit length x every degree seeded, 12 aggregated configurations up to 64x32, 8 with degenerate data: identity commitments, seeds 0 and 1, a repeated commitment; quick skips bits*aggregation > 512) verified in three modes, masks compared, "
            "reference verifier and recovery run on it, seeded ones re-proved and A/L/R compared; each of 10 recorded generator tables and the Pedersen set regenerated; cross cases: fresh random instances over the lattice, "
            "reference prover -> library verify + recover, library prover -> reference verifier, seeded A/L/R equality between the two provers; distinct = distinct vectors / instances",
    "require": {"quick": {"recorded_proofs_checked": 48, "recorded_proof_verifications": 120, "recorded_masks_compared": 80, "seeded_reproofs_compared": 40, "generator_sets_compared": 8,
                          "reference_proofs_into_library": 80, "library_proofs_into_reference": 80, "seeded_prover_pairs_compared": 10, "challenge_sequences_compared": 80, "reference_recoveries": 10},
                "thorough": {"recorded_proofs_checked": 54, "recorded_proof_verifications": 140, "recorded_masks_compared": 90, "seeded_reproofs_compared": 42, "generator_sets_compared": 11,
                             "reference_proofs_into_library": 1500, "library_proofs_into_reference": 1500, "seeded_prover_pairs_compared": 200}},
    "assumptions": COMMON_ASSUMPTIONS + ["the pinned commit IS release 0.4.0 (no registry copy of the crate exists offline to confirm it); the vectors were recorded from it before any fix: commit, with the unmodified merlin crate",
                                         "full-proof byte reproduction is deliberately not an oracle: A1, B, r1, s1, d1 depend on the order in which the prover consumes its RNG, which a compatible refactor may change"],
    "level_text": "Checks the current tree against what the pinned release produced: recorded proofs still verify in every mode and yield the recorded masks, recorded generator encodings are regenerated, seeded statements re-prove to the "
                  "recorded A / L_j / R_j; and against an implementation written from the paper and the documentation: its proofs are accepted and their masks recovered, the library's proofs are accepted by it, and for seeded "
                  "statements both provers emit byte-identical A / L_j / R_j (same nonce derivation, generators, transcript layout, folding).",
    "level_note": "Held on the recorded vectors and the executed cross runs. Trusted: refbp, the recorded vectors.",
}

CHECKS["C20"] = {
    "title": "Secrets are wiped from heap memory before it is released",
    "level": "exploration",
    "technique": "runtime monitoring with a scanning global allocator: every block released (dealloc, and the moved-from block of every realloc) during library calls and drops of owning objects is searched for the literal bytes of registered secrets, then wiped; run on an unoptimised library build, the checked build and the plain release build; raw scan of a statement's bytes after drop_in_place",
    "design_ref": "DESIGN.md section 4 C20",
    "legs": [
        {"name": "lib0", "build": "lib0", "shards": 16, "leg": "all", "args": ["profile=lib0"]},
        {"name": "release", "build": "release", "shards": 16, "leg": "all", "args": ["profile=release"]},
        {"name": "plain", "build": "plain", "shards": 16, "leg": "all", "args": ["profile=plain"]},
    ],
    "rule": "one case = one armed window around a library call or a drop: prove (seeded / unseeded, degree 1..6, aggregation 1..4, 64-bit high-entropy values), a prove call refused half-way, verify in both recovering modes on success and "
            "on two failure paths (final check fails after recovery; a later batch member is refused), drop of returned masks, drop and clone+drop of CommitmentOpening, RangeWitness, ExtendedMask, Vec / Box / clone of a seeded RangeStatement; plus "
            "the in-place statement scan; non-trivial = at least one block was released and scanned in the window; distinct = distinct (instance, window, build)",
    "require": {"quick": {"window_compare": 90, "window_CommitmentOpening::clone_from": 90, "window_RangeWitness::clone_from": 180, "windows": 2500, "blocks_scanned": 150000, "window_prove": 300, "window_verify": 500, "window_drop": 1500, "inline_seed_scans": 80, "scanner_selftests": 48},
                "thorough": {"windows": 25000, "blocks_scanned": 1500000, "window_prove": 3000, "window_verify": 5000, "window_drop": 15000, "inline_seed_scans": 800, "scanner_selftests": 48}},
    "assumptions": COMMON_ASSUMPTIONS + ["decides on literal encodings of the four secret kinds the property names (LE64 value - only 64-bit high-entropy values are registered -, 32-byte blinding factor, seed, mask component); buffers merely derived from secrets (NAF / radix-16 digits, offset bit vectors, seed-derived nonces) are diagnostics, not verdicts",
                                         "realloc is made to move always (a conforming allocator may), so a grown buffer's old block is always inspected; blocks are wiped after scanning and the harness wipes every block it releases itself, so stale bytes cannot resurface in uninitialised slack",
                                         "Ristretto only: over the free-module group a commitment literally stores blinding factors as coordinates"],
    "level_text": "Interposes on the global allocator of the real prover and verifier and inspects every heap block they release while secrets are live: values, blinding factors, the recovery seed and recovered masks must never be found, "
                  "in an unoptimised build of the library (where temporaries are not elided), in the checked build and in the plain release build; owning types are dropped (also as clones, in Vec and Box) inside armed windows; prover calls that are refused (wrong opening at the first / last position, a promise above the value at the first / middle / last "
                  "position, too few openings) and verifier calls that fail are windows too, as are mask comparisons, clone_from() onto smaller and larger objects, and prove / recover on a worker thread observed through the thread's exit; a statement dropped in place must no longer contain its seed. The stack below every window is zeroed first, 64-bit value patterns have "
                  "every byte >= 0x80 and a value hit must reproduce in two re-runs with other values (DESIGN section 11: stale stack bytes in padding are not a buffer holding a value).",
    "level_note": "Held on the executed windows; scanning cannot see secrets in a transformed representation. The scanner is self-tested in every process with a planted canary.",
}


# Minimum monitor observations are calibrated from runs on the unchanged tree at several seeds (bin/calibrate writes 70%
# of the smallest value observed); the hand-written values above name the counters and are only a fallback.
import json as _json, os as _os
for _tier in ("quick", "thorough"):
    _cal = _os.path.join(_os.path.dirname(_os.path.abspath(__file__)), f"require_{_tier}.json")
    if _os.path.exists(_cal):
        for _cid, _req in _json.load(open(_cal)).items():
            if _cid in CHECKS:
                _base = CHECKS[_cid].setdefault("require", {})
                if _tier == "quick":
                    # never raise a hand-written quick minimum, only lower it to what the seeds support
                    _base["quick"] = {k: min(v, _req.get(k, v)) for k, v in _base.get("quick", {}).items()}
                else:
                    _base["thorough"] = _req

# Counters that depend on how the operating system schedules threads (how many calls actually overlapped) must not turn
# a loaded machine into an INCONCLUSIVE verdict: keep their minima far below anything seen, in every tier.
# The same goes for counters that grow with the number of shard processes (VERIF_JOBS): once per process self-tests,
# per-process baselines.
_SCHEDULING = {"overlapping_call_pairs": 100, "max_distinct_overlapping_kind_pairs": 2,
               "scanner_selftests": 3, "virgin_process_probes": 2, "sanitizer_processes": 2, "instrument_selftests": 1}
for _c in CHECKS.values():
    for _t in ("quick", "thorough"):
        _r = _c.get("require", {}).get(_t, {})
        for _k, _cap in _SCHEDULING.items():
            if _k in _r:
                _r[_k] = min(_r[_k], _cap)

