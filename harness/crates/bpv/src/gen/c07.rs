// C07 — minimum-value promises: value >= promise, and the promise vector binds the proof.

fn promise_candidates(cfg: &Cfg, v: u64) -> Vec<(String, Option<u64>)> {
    let maxv = cfg.max_value();
    let mut c: Vec<(String, Option<u64>)> = vec![("None".into(), None), ("0".into(), Some(0)), ("v".into(), Some(v)), ("v/3".into(), Some(v / 3)), ("2^n-1".into(), Some(maxv))];
    if v > 0 {
        c.push(("v-1".into(), Some(v - 1)));
    }
    if v < u64::MAX {
        c.push(("v+1".into(), Some(v + 1)));
    }
    if cfg.n < 64 {
        c.push(("2^n".into(), Some(1u64 << cfg.n)));
        c.push(("2^n+1".into(), Some((1u64 << cfg.n) + 1)));
    }
    c.push(("u64::MAX".into(), Some(u64::MAX)));
    c
}

pub fn run(ctx: &Ctx, rep: &mut Report) {
    let (max_mn, max_ncap) = if <P as Gx>::IS_FM { (1024, 2048) } else { (128, 256) };
    let mut cfgs = lattice_systematic(max_mn, max_ncap, false);
    let nrand = if ctx.thorough() { 300 } else { 20 };
    cfgs.extend(lattice_random(&mut ctx.rng(&format!("c07-lattice-{GROUP}"), 0), nrand, max_mn, max_ncap));
    let reps = if ctx.thorough() { 10 } else { 1 };
    let mut id = 0usize;
    for (k, cfg) in cfgs.iter().enumerate() {
        for r in 0..reps {
            id += 1;
            if ctx.mine(id) {
                one(ctx, rep, id, *cfg, k + r);
            }
        }
    }
}

fn one(ctx: &Ctx, rep: &mut Report, id: usize, cfg: Cfg, k: usize) {
    <P as Gx>::case_reset();
    let leg = if <P as Gx>::IS_FM { "fm" } else { "ris" };
    let mut rng = ctx.rng(&format!("c07-{GROUP}"), id as u64);
    let m = cfg.m;
    // values away from 0 where the range allows, so that v-1, v/3 are distinct promises
    let values: Vec<u64> = (0..m).map(|j| pick_value(VALUE_CLASSES[2 + (j + k) % 4], cfg.n, &mut rng)).collect();
    // base promise vector: a mixture of None / Some
    let promises: Vec<Option<u64>> = (0..m).map(|j| pick_promise(PROMISE_CLASSES[(j + k) % 5], j + k, values[j], &mut rng)).collect();
    // now and then two positions of the aggregate hold the SAME commitment (same value, same blinding) under different promises
    let duplicate = m >= 2 && k % 3 == 0;
    let seeded = m == 1 && k % 2 == 0;
    let seed = if seeded { Some(rand_scalar(&mut rng)) } else { None };
    let mut values = values;
    let mut promises = promises;
    if duplicate {
        values[m - 1] = values[0];
        promises[0] = Some(values[0] / 2);
        promises[m - 1] = Some(values[0]);
    }
    let mut case = Case::build(cfg, values.clone(), promises.clone(), seed, Context::random(&mut rng), &mut rng);
    if duplicate {
        case.blindings[m - 1] = case.blindings[0].clone();
        case.commitments[m - 1] = case.commitments[0].clone();
        rep.count("duplicate_commitment_cases", 1);
    }
    let replay = |what: &str| json!({"tier": if ctx.thorough() {"thorough"} else {"quick"}, "seed": ctx.seed, "leg": leg, "case": id, "descr": case.json(), "step": what});
    let prm = case.params();
    // ---- prover side: promise p at position j, accept iff p <= v (and p < 2^n)
    let mut positions = vec![0usize, m - 1, m / 2];
    positions.dedup();
    for &j in &positions {
        for (nm, p) in promise_candidates(&cfg, values[j]) {
            let mut pr = promises.clone();
            pr[j] = p;
            let pv = p.unwrap_or(0);
            let expect_ok = pv <= values[j];
            let st = case.statement_with(&prm, &pr, seed);
            let mut prng = FaultRng::new(RngKind::Healthy(rng.next_u64()));
            rep.eval(&(GROUP, "prove", case.key(), j, nm.clone()));
            rep.count("prover_promise_cases", 1);
            // the convenience entry point (operating system's generator) must take the same decision
            if (id + j) % 2 == 0 {
                rep.count("prover_promise_cases_os_rng", 1);
                match no_panic(|| RangeProof::prove(&mut case.transcript(), &st, &case.witness())) {
                    Err(pn) => rep.violation(&format!("C07 prove-panic [{nm}]"), &format!("RangeProof::prove panicked with promise[{j}] = {nm}: {pn}"), replay(&nm)),
                    Ok(r) => {
                        if r.is_ok() != expect_ok {
                            rep.violation(
                                &format!("C07 prover-promise [{nm}] ok={}", r.is_ok()),
                                &format!("RangeProof::prove (operating system's generator) with value {} and promise[{j}] = {nm} ({p:?}) returned {} (expected {})", values[j], if r.is_ok() { "a proof" } else { "an error" }, if expect_ok { "a proof" } else { "an error" }),
                                replay(&nm),
                            );
                        }
                    },
                }
            }
            match no_panic(|| RangeProof::prove_with_rng(&mut case.transcript(), &st, &case.witness(), &mut prng)) {
                Err(pn) => rep.violation(&format!("C07 prove-panic [{nm}]"), &format!("prover panicked with promise[{j}] = {nm}: {pn}"), replay(&nm)),
                Ok(r) => {
                    if r.is_ok() != expect_ok {
                        rep.violation(
                            &format!("C07 prover-promise [{nm}] ok={}", r.is_ok()),
                            &format!("prover with value {} and promise[{j}] = {nm} ({p:?}) returned {} (expected {})", values[j], if r.is_ok() { "a proof" } else { "an error" }, if expect_ok { "a proof" } else { "an error" }),
                            replay(&nm),
                        );
                    }
                },
            }
        }
    }
    // ---- verifier side: proof made under `promises`, verified with one promise substituted
    let mut prng = FaultRng::new(RngKind::Healthy(rng.next_u64()));
    let Ok(proof) = case.prove(&mut prng) else {
        rep.note("C07: prover refused a valid case (see C01)".into());
        return;
    };
    let t = case.transcript();
    if verify_one(&t, &case.statement(), &proof, VerifyAction::VerifyOnly).is_err() {
        rep.note("C07: honest proof rejected (see C01)".into());
        return;
    }
    for j in 0..m {
        if m > 4 && !positions.contains(&j) && (j + k) % 4 != 0 {
            continue;
        }
        let base = promises[j].unwrap_or(0);
        let mut cands = promise_candidates(&cfg, values[j]);
        cands.push(("base".into(), promises[j]));
        cands.push(("base as Some".into(), Some(base)));
        if base > 0 {
            cands.push(("base-1".into(), Some(base - 1)));
        }
        if base < u64::MAX {
            cands.push(("base+1".into(), Some(base + 1)));
        }
        for (nm, p2) in cands {
            let mut pr = promises.clone();
            pr[j] = p2;
            let pv = p2.unwrap_or(0);
            let same = pv == base;
            let fits = cfg.n >= 64 || (pv >> cfg.n) == 0;
            let st = case.statement_with(&prm, &pr, seed);
            for action in [VerifyAction::VerifyOnly, VerifyAction::RecoverAndVerify] {
                rep.eval(&(GROUP, "verify", case.key(), j, nm.clone(), action_name(action)));
                rep.count("verifier_substitutions", 1);
                if same {
                    rep.count("verifier_valuewise_equal_substitutions", 1);
                }
                if !fits {
                    rep.count("verifier_promise_does_not_fit", 1);
                }
                <P as Gx>::probe_arm();
                let r = no_panic(|| verify_one(&t, &st, &proof, action));
                let probe = <P as Gx>::probe_take();
                match r {
                    Err(pn) => rep.violation(&format!("C07 verify-panic [{nm}]"), &format!("verifier panicked with promise[{j}] = {nm}: {pn}"), replay(&nm)),
                    Ok(res) => {
                        if res.is_ok() != same {
                            rep.violation(
                                &format!("C07 verifier-promise [{}] accepted={}", if same { "value-wise equal" } else { nm.as_str() }, res.is_ok()),
                                &format!("proof made under promise[{j}] = {:?}; verifying under {p2:?} ({nm}) gives {} (expected {})", promises[j], if res.is_ok() { "accept" } else { "reject" }, if same { "accept" } else { "reject" }),
                                replay(&nm),
                            );
                        }
                        // a promise that does not fit the bit length is refused outright: no final check is evaluated
                        if !fits {
                            if let Some(f) = probe {
                                if f.calls > 0 {
                                    rep.violation(
                                        &format!("C07 oversized-promise-not-refused [{nm}]"),
                                        &format!("promise[{j}] = {nm} does not fit {} bits but the verifier went on to evaluate its final check", cfg.n),
                                        replay(&nm),
                                    );
                                }
                            }
                        }
                    },
                }
            }
        }
    }
    // several promises of one statement that do not fit the bit length (equal ones, ones with the same high bits):
    // refused outright in every mode, like a single one
    if m >= 2 && cfg.n < 64 {
        let top = 1u64 << cfg.n;
        let a = k % m;
        let b = (a + 1 + k % (m - 1)) % m;
        let sets: Vec<(&str, Vec<(usize, u64)>)> = vec![
            ("two equal promises of 2^n", vec![(a, top), (b, top)]),
            ("two promises above 2^n with equal high bits", vec![(a, top + 3), (b, top + 5)]),
            ("two promises of u64::MAX", vec![(a, u64::MAX), (b, u64::MAX)]),
            ("two promises with one equal high bit", vec![(a, 1u64 << 40.max(cfg.n)), (b, (1u64 << 40.max(cfg.n)) + 7)]),
            ("every promise 2^n", (0..m).map(|j| (j, top)).collect()),
        ];
        for (nm, set) in sets {
            let mut pr = promises.clone();
            for (j, v) in &set {
                pr[*j] = Some(*v);
            }
            let st = case.statement_with(&prm, &pr, seed);
            for action in ACTIONS {
                rep.eval(&(GROUP, "verify-multi", case.key(), nm, action_name(action)));
                rep.count("verifier_substitutions", 1);
                rep.count("verifier_promise_does_not_fit", 1);
                <P as Gx>::probe_arm();
                let r = no_panic(|| verify_one(&t, &st, &proof, action));
                let probe = <P as Gx>::probe_take();
                match r {
                    Err(pn) => rep.violation(&format!("C07 verify-panic [{nm}]"), &format!("verifier panicked with {nm}: {pn}"), replay(nm)),
                    Ok(res) => {
                        if res.is_ok() {
                            rep.violation(&format!("C07 verifier-promise [{nm}] accepted=true"), &format!("{nm}: not refused in {} although they do not fit {} bits", action_name(action), cfg.n), replay(nm));
                        } else if probe.map(|f| f.calls > 0).unwrap_or(false) {
                            rep.violation(&format!("C07 oversized-promise-not-refused [{nm}]"), &format!("{nm}: the verifier went on to evaluate its final check ({})", action_name(action)), replay(nm));
                        }
                    },
                }
            }
        }
    }
    rep.sample(GROUP, json!({"case": case.json()}));
}
