// C12 — proof validity does not depend on generator capacity.

pub fn run(ctx: &Ctx, rep: &mut Report) {
    let leg = if <P as Gx>::IS_FM { "fm" } else { "ris" };
    let is_fm = <P as Gx>::IS_FM;
    let maxcap = if ctx.thorough() { 64 } else { 32 };
    let mut id = 0usize;
    // ---- cross-capacity singles: all n, m, ordered pairs (c_p, c_v)
    for (bi, &n) in BITS.iter().enumerate() {
        for &m in &[1usize, 2, 4, 8, 16, 32] {
            if !is_fm && n * m > if ctx.thorough() { 512 } else { 128 } {
                continue;
            }
            let mut cp = m;
            while cp <= maxcap {
                id += 1;
                if ctx.mine(id) && (is_fm || ctx.thorough() || (bi + cp.trailing_zeros() as usize) % 2 == 0) && (is_fm || n * cp <= 2048) {
                    cross(ctx, rep, id, n, m, cp, maxcap, leg);
                }
                cp *= 2;
            }
        }
    }
    // ---- batches whose members use different capacities
    let nb = if ctx.thorough() { 8000 } else { 96 };
    for b in 0..nb {
        id += 1;
        if ctx.mine(id) {
            mixed_batch(ctx, rep, id, b, leg);
        }
    }
}

#[allow(clippy::too_many_arguments)]
fn cross(ctx: &Ctx, rep: &mut Report, id: usize, n: usize, m: usize, cp: usize, maxcap: usize, leg: &str) {
    <P as Gx>::case_reset();
    clear_params_cache();
    let mut rng = ctx.rng(&format!("c12-{GROUP}"), id as u64);
    let ext = 1 + (id % 6);
    let cfg = Cfg::new(n, m, cp, ext);
    let case = Case::random(cfg, VALUE_CLASSES[id % 6], PROMISE_CLASSES[id % 5], true, &mut rng);
    if let Err(e) = RangeStatement::init(case.params(), case.commitments.clone(), case.promises.clone(), case.seed) {
        rep.violation(
            &format!("C12 statement-refused cap{}m", if cp > m { ">" } else { "=" }),
            &format!("a statement for {m} commitment(s) (seeded: {}) cannot be built over parameters of capacity {cp}: {e}", case.seed.is_some()),
            json!({"tier": if ctx.thorough() {"thorough"} else {"quick"}, "seed": ctx.seed, "leg": leg, "case": id, "descr": {"group": GROUP, "bits": n, "aggregation": m, "capacity": cp, "ext": ext}}),
        );
        return;
    }
    let mut prng = FaultRng::new(RngKind::Healthy(rng.next_u64()));
    let proof = match no_panic(|| case.prove(&mut prng)) {
        Ok(Ok(p)) => p,
        Ok(Err(_)) => {
            rep.note("C12: prover refused a valid case (see C01)".into());
            return;
        },
        Err(p) => {
            rep.violation(
                &format!("C12 prove-panic cap{}m", if cp > m { ">" } else { "=" }),
                &format!("proving {m} commitment(s) over parameters of capacity {cp} panicked: {p}"),
                json!({"tier": if ctx.thorough() {"thorough"} else {"quick"}, "seed": ctx.seed, "leg": leg, "case": id, "descr": {"group": GROUP, "bits": n, "aggregation": m, "capacity": cp, "ext": ext}}),
            );
            return;
        },
    };
    let pp = case.params();
    let mut cv = m;
    while cv <= maxcap {
        if !<P as Gx>::IS_FM && n * cv > 2048 {
            break;
        }
        let pv = params_uncached(n, cv, ext);
        let replay = json!({"tier": if ctx.thorough() {"thorough"} else {"quick"}, "seed": ctx.seed, "leg": leg, "case": id, "descr": {"group": GROUP, "bits": n, "aggregation": m, "prover_capacity": cp, "verifier_capacity": cv, "ext": ext}});
        // generator (party i, index j) is the same point whatever the capacity
        rep.count("generator_prefixes_compared", 1);
        let common = n * cp.min(cv);
        if pp.gi_base_iter().take(common).zip(pv.gi_base_iter()).any(|(a, b)| a != b) || pp.hi_base_iter().take(common).zip(pv.hi_base_iter()).any(|(a, b)| a != b) {
            rep.violation("C12 generators-depend-on-capacity", &format!("vector generators of capacity {cp} and {cv} differ on their common prefix"), replay.clone());
        }
        let st = match RangeStatement::init(pv.clone(), case.commitments.clone(), case.promises.clone(), case.seed) {
            Ok(s) => s,
            Err(e) => {
                rep.violation(&format!("C12 statement-refused cap{}m", if cv > m { ">" } else { "=" }), &format!("a statement for {m} commitment(s) (seeded: {}) cannot be built over verifier parameters of capacity {cv}: {e}", case.seed.is_some()), replay.clone());
                cv *= 2;
                continue;
            },
        };
        for action in ACTIONS {
            rep.eval(&(GROUP, n, m, cp, cv, action_name(action)));
            rep.count("cross_capacity_verifications", 1);
            <P as Gx>::probe_arm();
            let r = no_panic(|| verify_one(&case.transcript(), &st, &proof, action));
            let probe = <P as Gx>::probe_take();
            match r {
                Err(p) => rep.violation(&format!("C12 panic cp{}cv", if cp == cv { "=" } else if cp < cv { "<" } else { ">" }), &format!("verifier panicked (prover capacity {cp}, verifier capacity {cv}): {p}"), replay.clone()),
                Ok(Err(e)) => rep.violation(
                    &format!("C12 cross-capacity-rejected cp{}cv", if cp == cv { "=" } else if cp < cv { "<" } else { ">" }),
                    &format!("proof for {m} commitments made with capacity {cp} rejected by a verifier with capacity {cv} ({}): {e}", action_name(action)),
                    replay.clone(),
                ),
                Ok(Ok(mask)) => {
                    let want = if action != VerifyAction::VerifyOnly && case.seed.is_some() { Some(case.blindings[0].clone()) } else { None };
                    if mask_vec(&mask) != want {
                        rep.violation("C12 cross-capacity-mask", &format!("mask recovered with verifier capacity {cv} differs from the blinding vector"), replay.clone());
                    }
                    if action != VerifyAction::RecoverOnly {
                        if let Some(f) = probe {
                            rep.count("static_scalar_counts_checked", 1);
                            if f.static_len != 2 * n * cv || f.table_len != 2 * n * cv {
                                rep.violation("C12 static-count", &format!("{} static scalars for a table of {} (expected {})", f.static_len, f.table_len, 2 * n * cv), replay.clone());
                            }
                        }
                    }
                },
            }
        }
        cv *= 2;
    }
    rep.sample(GROUP, json!({"bits": n, "aggregation": m, "prover_capacity": cp, "ext": ext}));
}

fn mixed_batch(ctx: &Ctx, rep: &mut Report, id: usize, b: usize, leg: &str) {
    <P as Gx>::case_reset();
    clear_params_cache();
    let mut rng = ctx.rng(&format!("c12-batch-{GROUP}"), id as u64);
    let n = [2usize, 4, 8, 1, 16][b % 5];
    let ext = 1 + (b % 6);
    // (aggregation, capacity) mixtures: the largest n*m member has a smaller capacity than another member, ties,
    // first member not the largest with a different amount of spare capacity, ...
    let fixed: [&[(usize, usize)]; 10] = [
        &[(1, 4), (2, 2)],
        &[(1, 1), (2, 4)],
        &[(2, 2), (1, 8)],
        &[(1, 4), (2, 2), (1, 1)],
        &[(1, 1), (1, 4)],
        &[(2, 8), (2, 2), (4, 4)],
        &[(4, 4), (1, 16), (2, 8), (4, 8)],
        &[(1, 2), (1, 1), (1, 8), (1, 4)],
        &[(2, 2), (2, 4), (2, 2)],
        &[(1, 8), (4, 4), (2, 16), (1, 1), (4, 8)],
    ];
    let mixture: Vec<(usize, usize)> = if b % 3 != 2 {
        fixed[(b / 3) % fixed.len()].to_vec()
    } else {
        (0..2 + (rng.next_u32() % 5) as usize)
            .map(|_| {
                let m = 1usize << (rng.next_u32() % 4);
                (m, (m << (rng.next_u32() % 4)).min(32))
            })
            .collect()
    };
    let mut mixture: Vec<(usize, usize)> = mixture.into_iter().filter(|(m, _)| n * m <= 64).collect();
    if mixture.len() < 2 {
        return;
    }
    // now and then a mixture longer than the verifier's internal chunk: the largest member first, last or at 256
    let long = b % 8 == 7;
    if long {
        let big = *mixture.iter().max_by_key(|(m, _)| *m).unwrap();
        let small: Vec<(usize, usize)> = mixture.iter().copied().filter(|(m, _)| *m < big.0).collect();
        if !small.is_empty() {
            let total = 257 + (b / 8) % 44;
            let at = [0usize, total - 1, 256, 100][(b / 8) % 4];
            mixture = (0..total).map(|i| if i == at { big } else { small[i % small.len()] }).collect();
            rep.count("mixed_capacity_batches_beyond_one_chunk", 1);
        }
    }
    let mut cases: Vec<Case> = vec![];
    let mut proofs: Vec<Proof> = vec![];
    let mut made: HashMap<(usize, usize), usize> = HashMap::new();
    for (i, &(m, cap)) in mixture.iter().enumerate() {
        if mixture.len() > 16 {
            if let Some(j) = made.get(&(m, cap)) {
                cases.push(cases[*j].clone());
                proofs.push(proofs[*j].clone());
                continue;
            }
        }
        // prove under one capacity, verify under the mixture's capacity
        let cp = if (i + b) % 2 == 0 { cap } else { m.max(cap / 2) };
        let case = Case::random(Cfg::new(n, m, cp, ext), VALUE_CLASSES[(i + b) % 6], PROMISE_CLASSES[(i + b) % 5], true, &mut rng);
        let mut prng = FaultRng::new(RngKind::Healthy(rng.next_u64()));
        let p = match no_panic(|| case.prove(&mut prng)) {
            Ok(Ok(p)) => p,
            Ok(Err(e)) => {
                rep.violation("C12 member-not-provable", &format!("a valid member ({m} commitments, capacity {cp}, seeded {}) cannot be proved: {e}", case.seed.is_some()),
                    json!({"tier": if ctx.thorough() {"thorough"} else {"quick"}, "seed": ctx.seed, "leg": leg, "case": id, "descr": {"group": GROUP, "bits": n, "ext": ext, "aggregation": m, "capacity": cp}}));
                return;
            },
            Err(pn) => {
                rep.violation("C12 prove-panic member", &format!("proving a valid member ({m} commitments, capacity {cp}) panicked: {pn}"),
                    json!({"tier": if ctx.thorough() {"thorough"} else {"quick"}, "seed": ctx.seed, "leg": leg, "case": id, "descr": {"group": GROUP, "bits": n, "ext": ext, "aggregation": m, "capacity": cp}}));
                return;
            },
        };
        made.insert((m, cap), cases.len());
        cases.push(case);
        proofs.push(p);
    }
    let ts: Vec<Transcript> = cases.iter().map(|c| c.transcript()).collect();
    let mut sts: Vec<Stmt> = vec![];
    for (c, (mm, cap)) in cases.iter().zip(mixture.iter()) {
        match RangeStatement::init(params_uncached(n, *cap, ext), c.commitments.clone(), c.promises.clone(), c.seed) {
            Ok(s) => sts.push(s),
            Err(e) => {
                rep.violation(&format!("C12 statement-refused cap{}m", if cap > mm { ">" } else { "=" }), &format!("a statement for {mm} commitment(s) (seeded: {}) cannot be built over parameters of capacity {cap}: {e}", c.seed.is_some()),
                    json!({"tier": if ctx.thorough() {"thorough"} else {"quick"}, "seed": ctx.seed, "leg": leg, "case": id, "descr": {"group": GROUP, "bits": n, "ext": ext, "aggregation": mm, "capacity": cap}}));
                return;
            },
        }
    }
    let replay = json!({"tier": if ctx.thorough() {"thorough"} else {"quick"}, "seed": ctx.seed, "leg": leg, "case": id, "descr": {"group": GROUP, "bits": n, "ext": ext, "mixture_aggregation_capacity": (if mixture.len() > 16 { mixture[..8].to_vec() } else { mixture.clone() }), "members": mixture.len()}});
    // every rotation of the batch: which member comes first matters for table and padding selection
    for rot in 0..(if mixture.len() > 16 { 1 } else { mixture.len() }) {
        let idx: Vec<usize> = (0..mixture.len()).map(|i| (i + rot) % mixture.len()).collect();
        let ts2: Vec<Transcript> = idx.iter().map(|i| ts[*i].clone()).collect();
        let sts2: Vec<Stmt> = idx.iter().map(|i| sts[*i].clone()).collect();
        let pr2: Vec<Proof> = idx.iter().map(|i| proofs[*i].clone()).collect();
        for action in ACTIONS {
            rep.eval(&(GROUP, "mixed", b, rot, action_name(action)));
            rep.count("mixed_capacity_batches", 1);
            <P as Gx>::probe_arm();
            let r = no_panic(|| verify_many(&ts2, &sts2, &pr2, action));
            let probe = <P as Gx>::probe_take();
            match r {
                Err(p) => rep.violation("C12 mixed-batch-panic", &format!("verify_batch panicked on a valid batch of {} with (aggregation, capacity) = {:?}..: {p}", idx.len(), idx.iter().take(8).map(|i| mixture[*i]).collect::<Vec<_>>()), replay.clone()),
                Ok(Err(e)) => rep.violation("C12 mixed-batch-rejected", &format!("a valid batch of {} with (aggregation, capacity) = {:?}.. was rejected ({}): {e}", idx.len(), idx.iter().take(8).map(|i| mixture[*i]).collect::<Vec<_>>(), action_name(action)), replay.clone()),
                Ok(Ok(masks)) => {
                    let ok = masks.len() == idx.len() &&
                        idx.iter().zip(masks.iter()).all(|(i, g)| {
                            let want = if action != VerifyAction::VerifyOnly && cases[*i].seed.is_some() { Some(cases[*i].blindings[0].clone()) } else { None };
                            mask_vec(g) == want
                        });
                    if !ok {
                        rep.violation("C12 mixed-batch-masks", "masks of a mixed-capacity batch are wrong or misaligned", replay.clone());
                    }
                    if action != VerifyAction::RecoverOnly {
                        if let Some(f) = probe {
                            rep.count("static_scalar_counts_checked", 1);
                            if f.static_len != f.table_len || f.residual_nnz != 0 {
                                rep.violation("C12 static-count", &format!("{} static scalars for a table of {}", f.static_len, f.table_len), replay.clone());
                            }
                        }
                    }
                },
            }
        }
    }
    rep.sample(&format!("{GROUP}-mixed"), json!({"bits": n, "ext": ext, "members": mixture.len(), "mixture_aggregation_capacity": (if mixture.len() > 16 { mixture[..8].to_vec() } else { mixture.clone() })}));
}
