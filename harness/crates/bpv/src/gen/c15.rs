// C15 — the proof encoding is a canonical bijection with an exact acceptance set.

/// Group order l, little-endian
const L_LE: [u8; 32] = [
    0xed, 0xd3, 0xf5, 0x5c, 0x1a, 0x63, 0x12, 0x58, 0xd6, 0x9c, 0xf7, 0xa2, 0xde, 0xf9, 0xde, 0x14, 0, 0, 0, 0, 0, 0, 0, 0, 0, 0, 0, 0, 0, 0, 0, 0x10,
];

/// Independent canonicity test: little-endian integer strictly below l
fn canonical(b: &[u8]) -> bool {
    for i in (0..32).rev() {
        if b[i] < L_LE[i] {
            return true;
        }
        if b[i] > L_LE[i] {
            return false;
        }
    }
    false
}

/// The acceptance set as the property states it
pub fn accepts(b: &[u8]) -> bool {
    if b.is_empty() {
        return false;
    }
    let d = b[0] as usize;
    if !(1..=6).contains(&d) {
        return false;
    }
    if (b.len() - 1) % 32 != 0 {
        return false;
    }
    let n_el = (b.len() - 1) / 32;
    if n_el < 5 + d + 2 || (n_el - 5 - d) % 2 != 0 {
        return false;
    }
    let el = |i: usize| &b[1 + 32 * i..33 + 32 * i];
    (0..d).all(|i| canonical(el(i))) && canonical(el(d + 3)) && canonical(el(d + 4))
}

fn add_le(a: &[u8; 32], k: u64) -> [u8; 32] {
    let mut r = *a;
    let mut carry = k as u128;
    for x in r.iter_mut() {
        let s = *x as u128 + (carry & 0xFF);
        *x = s as u8;
        carry = (carry >> 8) + (s >> 8);
    }
    r
}

fn sub1_le(a: &[u8; 32]) -> [u8; 32] {
    let mut r = *a;
    for x in r.iter_mut() {
        if *x > 0 {
            *x -= 1;
            break;
        }
        *x = 0xFF;
    }
    r
}

struct Oracle<'a> {
    rep: &'a mut Report,
    ctx: &'a Ctx,
    leg: &'static str,
    id: usize,
}

impl<'a> Oracle<'a> {
    /// decode `b` and compare with the acceptance predicate; on Ok re-encode; optionally the serde form too
    fn check(&mut self, what: &str, b: &[u8], serde_too: bool) {
        let want = accepts(b);
        let got = no_panic(|| Proof::from_bytes(b));
        self.rep.count("decodes", 1);
        if want {
            self.rep.count("accepted_strings", 1);
        }
        let replay = |this: &Self| json!({"tier": if this.ctx.thorough() {"thorough"} else {"quick"}, "seed": this.ctx.seed, "leg": this.leg, "case": this.id, "descr": {"group": GROUP, "input": what, "len": b.len(), "tag": b.first(), "bytes_prefix": hex(&b[..b.len().min(48)])}});
        let class: String = what.chars().filter(|c| !c.is_ascii_digit()).collect();
        match got {
            Err(p) => {
                let r = replay(self);
                self.rep.violation(&format!("C15 decode-panic [{class}]"), &format!("from_bytes panicked on {what}: {p}"), r);
                return;
            },
            Ok(r) => {
                if r.is_ok() != want {
                    let rp = replay(self);
                    self.rep.violation(
                        &format!("C15 acceptance-set [{class}] decoder={}", r.is_ok()),
                        &format!("from_bytes {} a string the stated acceptance set {} ({what}, {} bytes, tag {:?})", if r.is_ok() { "accepts" } else { "refuses" }, if want { "contains" } else { "excludes" }, b.len(), b.first()),
                        rp,
                    );
                }
                if let Ok(p) = &r {
                    let re = p.to_bytes();
                    self.rep.count("reencodes_compared", 1);
                    if re != b {
                        let rp = replay(self);
                        self.rep.violation(&format!("C15 reencode-differs [{class}]"), &format!("decoding succeeded but re-encoding gives different bytes ({what})"), rp);
                    }
                }
                if serde_too {
                    let mut framed = (b.len() as u64).to_le_bytes().to_vec();
                    framed.extend_from_slice(b);
                    let s: Result<Result<Proof, _>, String> = no_panic(|| bincode::deserialize::<Proof>(&framed));
                    self.rep.count("serde_decodes", 1);
                    match s {
                        Err(pn) => {
                            let rp = replay(self);
                            self.rep.violation(&format!("C15 serde-panic [{class}]"), &format!("serde decoding panicked on {what}: {pn}"), rp);
                        },
                        Ok(sr) => {
                            if sr.is_ok() != r.is_ok() {
                                let rp = replay(self);
                                self.rep.violation(
                                    &format!("C15 serde-acceptance-differs [{class}] serde={}", sr.is_ok()),
                                    &format!("the serde form {} a byte string that from_bytes {} ({what}, {} bytes)", if sr.is_ok() { "accepts" } else { "refuses" }, if r.is_ok() { "accepts" } else { "refuses" }, b.len()),
                                    rp,
                                );
                            } else if let (Ok(a), Ok(bb)) = (&sr, &r) {
                                if a != bb {
                                    let rp = replay(self);
                                    self.rep.violation("C15 serde-value-differs", "serde and from_bytes decode the same bytes to different proofs", rp);
                                }
                                match bincode::serialize(a) {
                                    Ok(out) if out == framed => {},
                                    _ => {
                                        let rp = replay(self);
                                        self.rep.violation("C15 serde-encoding-differs", "serde serialisation is not LE64(len) || to_bytes", rp);
                                    },
                                }
                            }
                        },
                    }
                }
            },
        }
    }
}

fn filler(kind: usize, len: usize) -> Vec<u8> {
    match kind {
        0 => vec![0u8; len],
        1 => (0..len).map(|i| if i > 0 && (i - 1) % 32 == 31 { ((i * 7 + 3) % 16) as u8 } else { (i * 7 + 3) as u8 }).collect(), // every element canonical as a scalar
        _ => vec![0xFFu8; len],
    }
}

pub fn run(ctx: &Ctx, rep: &mut Report) {
    let leg: &'static str = if <P as Gx>::IS_FM { "fm" } else { "ris" };
    let max_len = 1 + 32 * 40 + 33;
    // ---- (i) exhaustive over tag x length x three fillers
    let mut id = 0usize;
    for tag in 0..=255usize {
        id += 1;
        if !ctx.mine(id) {
            continue;
        }
        // the quick tier sweeps all lengths for tags 0..=8 and 255, and element-aligned +-1 lengths for the others
        let full = true;
        let mut o = Oracle { rep, ctx, leg, id };
        for len in 0..=max_len {
            if !full && !(len % 32 <= 2 || len < 40) {
                continue;
            }
            for f in 0..3 {
                let mut b = filler(f, len);
                if len > 0 {
                    b[0] = tag as u8;
                }
                o.check(&format!("tag {tag} length {len} filler {f}"), &b, f == 0 && (len % 32 == 1 || len < 3));
            }
            o.rep.distinct_extra += 1;
        }
        o.rep.eval(&(GROUP, "sweep", tag));
    }
    // ---- (ii) each scalar position at the canonicity boundary
    for d in 1..=6usize {
        for k in [1usize, 2, 7] {
            id += 1;
            if !ctx.mine(id) {
                continue;
            }
            let mut o = Oracle { rep, ctx, leg, id };
            let n_el = 5 + d + 2 * k;
            let mut base = filler(1, 1 + 32 * n_el);
            base[0] = d as u8;
            let mut positions: Vec<usize> = (0..d).collect();
            positions.push(d + 3);
            positions.push(d + 4);
            let top: [u8; 32] = { let mut t = [0xFFu8; 32]; t[31] = 0x7F; t };
            let vals: Vec<(&str, [u8; 32])> = vec![
                ("l-1", sub1_le(&L_LE)),
                ("l", L_LE),
                ("l+1", add_le(&L_LE, 1)),
                ("l+2^64", { let mut t = L_LE; t[8] = t[8].wrapping_add(1); t }),
                ("2^252+l", { let mut t = L_LE; t[31] = 0x20; t }),
                ("2^255-1", top),
                ("2^256-1", [0xFF; 32]),
                ("high bit set", { let mut t = [0u8; 32]; t[31] = 0x80; t }),
                ("2^252", { let mut t = [0u8; 32]; t[31] = 0x10; t }),
                ("zero", [0u8; 32]),
            ];
            // interior points of [2^252, l): canonical scalars whose low limbs are large / whose middle limbs are small
            let mut frng = o.ctx.rng("c15-interior", (d * 100 + k) as u64);
            let mut interior: Vec<(String, [u8; 32])> = vec![];
            for t in 0..24 {
                // 2^252 + r with r < l - 2^252 (r random, 124 bits, top limb pattern varied)
                let mut b = [0u8; 32];
                frng.fill_bytes(&mut b[..15]);
                b[15] &= 0x07;
                b[31] = 0x10;
                match t % 4 {
                    0 => {},
                    1 => {
                        for x in b[..8].iter_mut() {
                            *x = 0xFF;
                        }
                    },
                    2 => {
                        for x in b[8..15].iter_mut() {
                            *x = 0;
                        }
                        b[15] = 0;
                    },
                    _ => {
                        // l - small random
                        b = L_LE;
                        let sub = (frng.next_u64() | 1) as u128 * (1 + (t as u128 % 3) * (1 << 40));
                        let mut borrow = sub;
                        for x in b.iter_mut() {
                            let cur = *x as u128;
                            let take = borrow & 0xFF;
                            borrow >>= 8;
                            if cur >= take {
                                *x = (cur - take) as u8;
                            } else {
                                *x = (cur + 256 - take) as u8;
                                borrow += 1;
                            }
                        }
                    },
                }
                if canonical(&b) {
                    interior.push((format!("interior point {t} of [2^252, l)"), b));
                }
            }
            for &pos in &positions {
                for (nm, v) in &interior {
                    let mut b = base.clone();
                    b[1 + 32 * pos..33 + 32 * pos].copy_from_slice(v);
                    o.check(&format!("scalar slot {pos} = {nm} (degree {d}, rounds {k})"), &b, pos == 0);
                    o.rep.count("scalar_interior_cases", 1);
                }
            }
            for &pos in &positions {
                for (nm, v) in &vals {
                    let mut b = base.clone();
                    b[1 + 32 * pos..33 + 32 * pos].copy_from_slice(v);
                    o.check(&format!("scalar slot {pos} = {nm} (degree {d}, rounds {k})"), &b, true);
                    o.rep.count("scalar_boundary_cases", 1);
                }
            }
            // limb- and byte-structured neighbours of the group order in one (rotating) scalar slot: every combination
            // of {0, l's limb, l's limb - 1, l's limb + 1, all ones, random} over the four 64-bit limbs, and every
            // single byte of l and of l - 1 replaced by 0, 0xFF, byte + 1, byte - 1
            {
                let pos = positions[(d + k) % positions.len()];
                let limb_of = |i: usize| u64::from_le_bytes(L_LE[8 * i..8 * i + 8].try_into().unwrap());
                let rnd: [u64; 4] = [frng.next_u64(), frng.next_u64(), frng.next_u64(), frng.next_u64() >> 4];
                for code in 0..6usize.pow(4) {
                    let mut v = [0u8; 32];
                    let mut c = code;
                    for i in 0..4 {
                        let l = limb_of(i);
                        let x = match c % 6 {
                            0 => 0,
                            1 => l,
                            2 => l.wrapping_sub(1),
                            3 => l.wrapping_add(1),
                            4 => u64::MAX,
                            _ => rnd[i],
                        };
                        c /= 6;
                        v[8 * i..8 * i + 8].copy_from_slice(&x.to_le_bytes());
                    }
                    let mut b = base.clone();
                    b[1 + 32 * pos..33 + 32 * pos].copy_from_slice(&v);
                    o.check(&format!("scalar slot {pos} = limb pattern {code} (degree {d}, rounds {k})"), &b, false);
                    o.rep.count("scalar_limb_grid_cases", 1);
                }
                for from in [L_LE, sub1_le(&L_LE)] {
                    for i in 0..32 {
                        for how in 0..4 {
                            let mut v = from;
                            v[i] = match how {
                                0 => 0,
                                1 => 0xFF,
                                2 => v[i].wrapping_add(1),
                                _ => v[i].wrapping_sub(1),
                            };
                            let mut b = base.clone();
                            b[1 + 32 * pos..33 + 32 * pos].copy_from_slice(&v);
                            o.check(&format!("scalar slot {pos} = group order with byte {i} altered ({how}) (degree {d}, rounds {k})"), &b, false);
                            o.rep.count("scalar_byte_grid_cases", 1);
                        }
                    }
                }
            }
            // the same values in *point* slots must not matter
            for pos in [d, d + 1, d + 2, d + 5] {
                let mut b = base.clone();
                b[1 + 32 * pos..33 + 32 * pos].copy_from_slice(&[0xFF; 32]);
                o.check(&format!("point slot {pos} = 2^256-1 (degree {d}, rounds {k})"), &b, true);
            }
            o.rep.eval(&(GROUP, "scalar-boundary", d, k));
        }
    }
    // ---- (ii') long encodings: far more folding rounds than any proof can have (the acceptance set has no upper
    // bound on k), with and without a dangling element or stray bytes at the end
    for (ri, rounds) in [18usize, 33, 63, 64, 65, 66, 69, 70, 71, 72, 100, 127, 128, 129, 255, 256, 257, 500, 1000].into_iter().enumerate() {
        id += 1;
        if !ctx.mine(id) {
            continue;
        }
        let mut o = Oracle { rep, ctx, leg, id };
        let d = 1 + ri % 6;
        let n_el = 5 + d + 2 * rounds;
        let mut base = filler(1, 1 + 32 * n_el);
        base[0] = d as u8;
        o.check(&format!("{rounds} folding rounds (degree {d})"), &base, true);
        let mut b = base.clone();
        b.extend_from_slice(&[7u8; 32]);
        o.check(&format!("{rounds} folding rounds and a dangling element (degree {d})"), &b, true);
        let mut b = base.clone();
        b.push(1);
        o.check(&format!("{rounds} folding rounds and a stray byte (degree {d})"), &b, true);
        let mut b = base.clone();
        b.truncate(base.len() - 1);
        o.check(&format!("{rounds} folding rounds, one byte short (degree {d})"), &b, true);
        o.rep.count("long_encoding_cases", 4);
        // equality across lengths: a proof and the same proof with one more (L, R) pair are different proofs
        let mut longer = base.clone();
        longer.extend_from_slice(&filler(1, 64));
        if let (Ok(pa), Ok(pb)) = (Proof::from_bytes(&base), Proof::from_bytes(&longer)) {
            o.rep.count("equality_probes", 1);
            if pa == pb || pb == pa {
                let rp = json!({"tier": if ctx.thorough() {"thorough"} else {"quick"}, "seed": ctx.seed, "leg": leg, "case": id, "descr": {"what": "a proof compares equal to the same proof with one more folding round", "rounds": rounds, "degree": d}});
                o.rep.violation("C15 equality-ignores-element [extra round]", &format!("a {rounds}-round proof compares equal to the proof decoded from the same bytes plus one more (L, R) pair"), rp);
            }
        }
        o.rep.eval(&(GROUP, "long", rounds));
    }
    // ---- (iii) random strings, (iv) mutation-fuzzed valid encodings
    let nf = if ctx.thorough() { 1500000 } else { 6000 };
    for f in 0..nf {
        id += 1;
        if !ctx.mine(id) {
            continue;
        }
        let mut rng = ctx.rng(&format!("c15-fuzz-{GROUP}"), id as u64);
        let mut o = Oracle { rep, ctx, leg, id };
        // a valid base
        let d = 1 + (rng.next_u32() % 6) as usize;
        let k = 1 + (rng.next_u32() % 12) as usize;
        let mut base = vec![d as u8];
        for i in 0..(5 + d + 2 * k) {
            let is_scalar = i < d || i == d + 3 || i == d + 4;
            if is_scalar {
                base.extend_from_slice(rand_scalar(&mut rng).as_bytes());
            } else {
                let mut p = [0u8; 32];
                rng.fill_bytes(&mut p);
                base.extend_from_slice(&p);
            }
        }
        o.check("random valid encoding", &base, true);
        // "an equal proof": equality of decoded proofs is equality of their encodings - two encodings differing in one
        // element (any position) decode to unequal proofs, a proof equals its own clone and its re-decoding
        if let Ok(pa) = Proof::from_bytes(&base) {
            let n_el = (base.len() - 1) / 32;
            let el = (rng.next_u32() as usize) % n_el;
            let is_scalar = el < d || el == d + 3 || el == d + 4;
            let mut other = base.clone();
            if is_scalar {
                let mut sb = [0u8; 32];
                sb.copy_from_slice(&base[1 + 32 * el..33 + 32 * el]);
                let s2 = Scalar::from_bytes_mod_order(sb) + Scalar::ONE;
                other[1 + 32 * el..33 + 32 * el].copy_from_slice(s2.as_bytes());
            } else {
                other[1 + 32 * el + (rng.next_u32() as usize) % 31] ^= 1 << (rng.next_u32() % 8);
            }
            o.rep.count("equality_probes", 1);
            #[allow(clippy::redundant_clone)]
            let same = pa == pa.clone() && Proof::from_bytes(&base).map(|x| x == pa).unwrap_or(false);
            if !same {
                let rp = json!({"tier": if ctx.thorough() {"thorough"} else {"quick"}, "seed": ctx.seed, "leg": leg, "case": id, "descr": {"what": "a proof is not equal to its clone / its re-decoding"}});
                o.rep.violation("C15 equality-not-reflexive", "a decoded proof does not compare equal to its clone or to a second decoding of the same bytes", rp);
            }
            {
                let mut longer = base.clone();
                longer.extend_from_slice(&base[base.len() - 64..]);
                if let Ok(pl) = Proof::from_bytes(&longer) {
                    o.rep.count("equality_probes", 1);
                    if pa == pl || pl == pa {
                        let rp = json!({"tier": if ctx.thorough() {"thorough"} else {"quick"}, "seed": ctx.seed, "leg": leg, "case": id, "descr": {"what": "a proof compares equal to the same proof with its last round repeated", "degree": d, "rounds": k}});
                        o.rep.violation("C15 equality-ignores-element [extra round]", &format!("a {k}-round proof compares equal to the proof decoded from the same bytes with the last (L, R) pair repeated"), rp);
                    }
                }
            }
            if let Ok(pb) = Proof::from_bytes(&other) {
                if pa == pb {
                    let rp = json!({"tier": if ctx.thorough() {"thorough"} else {"quick"}, "seed": ctx.seed, "leg": leg, "case": id, "descr": {"what": "unequal encodings compare equal", "element": el, "degree": d, "rounds": k}});
                    o.rep.violation(
                        &format!("C15 equality-ignores-element [{}]", if is_scalar { "scalar" } else { "point" }),
                        &format!("two proofs whose encodings differ in element {el} (degree {d}, {k} rounds) compare equal: `equal proof` would not mean equal bytes"),
                        rp,
                    );
                }
            }
        }
        for mu in 0..24 {
            let mut b = base.clone();
            let what = match (f + mu) % 8 {
                0 => {
                    let i = (rng.next_u32() as usize) % b.len();
                    b[i] ^= 1 << (rng.next_u32() % 8);
                    "bit flip"
                },
                1 => {
                    b.truncate((rng.next_u32() as usize) % b.len());
                    "truncation"
                },
                2 => {
                    let extra = 1 + (rng.next_u32() as usize) % 70;
                    for _ in 0..extra {
                        b.push(rng.next_u32() as u8);
                    }
                    "extension"
                },
                3 => {
                    let i = 1 + 32 * ((rng.next_u32() as usize) % ((b.len() - 1) / 32));
                    b.drain(i..i + 32);
                    "element removed"
                },
                4 => {
                    let i = 1 + 32 * ((rng.next_u32() as usize) % ((b.len() - 1) / 32));
                    let e: Vec<u8> = b[i..i + 32].to_vec();
                    b.splice(i..i, e);
                    "element duplicated"
                },
                5 => {
                    b[0] = rng.next_u32() as u8;
                    "tag replaced"
                },
                6 => {
                    let i = 1 + 32 * ((rng.next_u32() as usize) % ((b.len() - 1) / 32));
                    b[i + 31] |= 0xF0;
                    "top nibble of an element set"
                },
                _ => {
                    let n = (rng.next_u32() as usize) % 200;
                    b = (0..n).map(|_| rng.next_u32() as u8).collect();
                    "random string"
                },
            };
            o.check(what, &b, mu % 3 == 0);
            o.rep.count("fuzzed_strings", 1);
        }
        o.rep.eval(&(GROUP, "fuzz", f));
    }
    // ---- (v) every kind of proof the prover can output
    let (max_mn, max_ncap) = if <P as Gx>::IS_FM { (2048, 4096) } else if ctx.thorough() { (2048, 4096) } else { (512, 1024) };
    let cfgs = lattice_systematic(max_mn, max_ncap, false);
    for (k, cfg) in cfgs.iter().enumerate() {
        id += 1;
        if !ctx.mine(id) {
            continue;
        }
        <P as Gx>::case_reset();
        let mut rng = ctx.rng(&format!("c15-prover-{GROUP}"), id as u64);
        let case = Case::random(*cfg, VALUE_CLASSES[k % 6], PROMISE_CLASSES[k % 5], k % 2 == 0, &mut rng);
        let mut prng = FaultRng::new(RngKind::Healthy(rng.next_u64()));
        let Ok(proof) = case.prove(&mut prng) else { continue };
        let bytes = proof.to_bytes();
        rep.eval(&(GROUP, "prover-output", *cfg));
        rep.count("prover_outputs", 1);
        let replay = json!({"tier": if ctx.thorough() {"thorough"} else {"quick"}, "seed": ctx.seed, "leg": leg, "case": id, "descr": case.json()});
        let want_len = 1 + 32 * (5 + cfg.ext + 2 * cfg.rounds());
        if bytes.len() != want_len {
            rep.violation("C15 encoded-length", &format!("encoded proof has {} bytes, 1 + 32*(5 + d + 2*log2(bits*aggregation)) = {want_len}", bytes.len()), replay.clone());
        }
        if bytes[0] as usize != cfg.ext {
            rep.violation("C15 degree-byte", "first byte is not the extension degree", replay.clone());
        }
        match Proof::from_bytes(&bytes) {
            Ok(p2) => {
                if p2 != proof {
                    rep.violation("C15 roundtrip prover-output differs", "decode(encode(proof)) is not equal to the proof", replay.clone());
                }
            },
            Err(e) => {
                rep.violation(
                    &format!("C15 roundtrip prover-output {}", if cfg.rounds() == 0 { "zero-rounds" } else { "refused" }),
                    &format!("a proof output by the prover (bits {} x aggregation {}, {} folding rounds) is refused by the decoder: {e}", cfg.n, cfg.m, cfg.rounds()),
                    replay.clone(),
                );
                continue;
            },
        }
        // serde round trip through bincode
        match bincode::serialize(&proof) {
            Ok(ser) => {
                let mut framed = (bytes.len() as u64).to_le_bytes().to_vec();
                framed.extend_from_slice(&bytes);
                rep.count("serde_roundtrips", 1);
                rep.max("max_serde_proof_bytes", bytes.len() as u64);
                if ser != framed {
                    rep.violation("C15 serde-encoding-differs", "serde serialisation is not LE64(len) || to_bytes", replay.clone());
                }
                match bincode::deserialize::<Proof>(&ser) {
                    Ok(p3) if p3 == proof => {},
                    Ok(_) => rep.violation("C15 serde-value-differs", "serde round trip changes the proof", replay.clone()),
                    Err(e) => rep.violation(&format!("C15 serde-acceptance-differs [prover output {} bytes]", if bytes.len() > 737 { ">737" } else { "<=737" }), &format!("serde refuses an honest proof of {} bytes that from_bytes accepts: {e}", bytes.len()), replay.clone()),
                }
            },
            Err(e) => rep.violation("C15 serde-serialize-failed", &format!("{e}"), replay.clone()),
        }
    }
    rep.sample(GROUP, json!({"sweep": "tag 0..=255 x length 0..=1314 x fillers {zeros, canonical pattern, 0xFF}", "scalar_values": ["l-1", "l", "l+1", "2^252+l", "2^255-1", "2^256-1"]}));
}
