// C08 (generic leg) — equal-and-opposite defects on every pair (i, j) and every blinding coordinate k: must be rejected.
// (The weights themselves are only observable over the free-module group: see checks/c08fm.rs.)

pub fn make_batch(n: usize, ext: usize, k: usize, b: usize, rng: &mut impl RngCore) -> Option<(Vec<Case>, Vec<Proof>)> {
    let mut cases = vec![];
    let mut proofs = vec![];
    for i in 0..k {
        let m = [1usize, 2, 1, 4, 2][(i + b) % 5];
        let m = if n * m > 64 { 1 } else { m };
        let cfg = Cfg::new(n, m, (m << ((i + b) % 2)).min(8), ext);
        let case = Case::random(cfg, VALUE_CLASSES[(i + b) % 6], PROMISE_CLASSES[(i + b) % 5], i % 2 == 0, rng);
        let mut prng = FaultRng::new(RngKind::Healthy(rng.next_u64()));
        let p = case.prove(&mut prng).ok()?;
        if cfg.mn() < 2 {
            return None;
        }
        cases.push(case);
        proofs.push(p);
    }
    Some((cases, proofs))
}

pub fn bump_d1(p: &Proof, k: usize, delta: &Scalar) -> Proof {
    let mut parts = Parts::of(p);
    let s = Scalar::from_canonical_bytes(parts.d1[k]).unwrap() + delta;
    parts.d1[k] = s.to_bytes();
    parts.to_proof().expect("re-encode")
}

pub fn round0(ctx: &Ctx, rep: &mut Report) {
    let leg = if <P as Gx>::IS_FM { "fm-round0" } else { "ris-round0" };
    let nb = if ctx.thorough() { 1200 } else { 128 };
    for b in 0..nb {
        let id = b + 1;
        if !ctx.mine(id) {
            continue;
        }
        <P as Gx>::case_reset();
        clear_params_cache();
        let mut rng = ctx.rng(&format!("c08-r0-{GROUP}"), id as u64);
        let n = [2usize, 4, 8, 16][b % 4];
        let ext = 1 + (b % 6);
        let k = 2 + (b % 4);
        let Some((cases, proofs)) = make_batch(n, ext, k, b, &mut rng) else { continue };
        let ts: Vec<Transcript> = cases.iter().map(|c| c.transcript()).collect();
        let action = if b % 2 == 0 { VerifyAction::VerifyOnly } else { VerifyAction::RecoverAndVerify };
        let sts: Vec<Stmt> = cases.iter().map(|c| if b % 4 >= 2 { c.statement() } else { c.statement_public() }).collect();
        if verify_many(&ts, &sts, &proofs, action).is_err() {
            rep.note("C08: honest batch rejected (see C03)".into());
            continue;
        }
        for i in 0..k {
            for j in (i + 1)..k {
                for kk in 0..ext {
                    let delta = rand_scalar(&mut rng);
                    let mut pr = proofs.clone();
                    pr[i] = bump_d1(&proofs[i], kk, &delta);
                    pr[j] = bump_d1(&proofs[j], kk, &-delta);
                    rep.eval(&(GROUP, "round0", b, i, j, kk));
                    rep.count("equal_opposite_pairs", 1);
                    let alone_i = verify_one(&ts[i], &sts[i], &pr[i], VerifyAction::VerifyOnly).is_ok();
                    let alone_j = verify_one(&ts[j], &sts[j], &pr[j], VerifyAction::VerifyOnly).is_ok();
                    if alone_i || alone_j {
                        rep.note("C08: a proof with a shifted d1 verifies alone (see C05)".into());
                        continue;
                    }
                    if verify_many(&ts, &sts, &pr, action).is_ok() {
                        rep.violation(
                            &format!("C08 equal-opposite-defects-accepted {GROUP}"),
                            &format!("batch of {k}: proofs {i} and {j} carry defects +delta / -delta on blinding coordinate {kk}, each is invalid alone, and the batch is accepted"),
                            json!({"tier": if ctx.thorough() {"thorough"} else {"quick"}, "seed": ctx.seed, "leg": leg, "case": id, "descr": {"batch": k, "bits": n, "ext": ext, "pair": [i, j], "coordinate": kk}}),
                        );
                    }
                }
            }
        }
        rep.sample(&format!("{GROUP}-round0"), json!({"batch": k, "bits": n, "ext": ext}));
    }
}
