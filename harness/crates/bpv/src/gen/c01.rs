// C01 — completeness: every honest proof verifies, in every configuration, in every mode, for every RNG.

pub fn variants(cfg: &Cfg, k: usize, thorough: bool) -> Vec<(ValueClass, PromiseClass, bool, usize)> {
    // (value class, promise class, seeded, rng-kind index); a rotating pairwise sample in the quick tier,
    // a denser one in the thorough tier. Seed only applies when m == 1.
    let count = if thorough { 24 } else { 6 };
    (0..count)
        .map(|i| {
            let vc = VALUE_CLASSES[(i + k) % VALUE_CLASSES.len()];
            let pc = PROMISE_CLASSES[(i * 2 + k / 2 + i / 5) % PROMISE_CLASSES.len()];
            let seeded = cfg.m == 1 && (i + k / 3) % 2 == 0;
            let rk = (i * 3 + k) % 7;
            (vc, pc, seeded, rk)
        })
        .collect()
}

pub fn run(ctx: &Ctx, rep: &mut Report) {
    let (max_mn, max_ncap) = <P as Gx>::bounds(&ctx.tier);
    let mut cfgs = lattice_systematic(max_mn, max_ncap, ctx.thorough());
    let nrand = if ctx.thorough() { 1500 } else { 24 };
    cfgs.extend(lattice_random(&mut ctx.rng(&format!("c01-lattice-{GROUP}"), 0), nrand, max_mn, max_ncap));
    // Ristretto is ~100x more expensive per case than FmPoint: thin the variants there
    let stride = if <P as Gx>::IS_FM { 1 } else if ctx.thorough() { 3 } else { 2 };
    let mut id = 0usize;
    for (k, cfg) in cfgs.iter().enumerate() {
        for (vi, (vc, pc, seeded, rk)) in variants(cfg, k, ctx.thorough()).into_iter().enumerate() {
            id += 1;
            if (vi + k) % stride != 0 || !ctx.mine(id) {
                continue;
            }
            one(ctx, rep, id, *cfg, vc, pc, seeded, rk);
        }
    }
}

#[allow(clippy::too_many_arguments)]
fn one(ctx: &Ctx, rep: &mut Report, id: usize, cfg: Cfg, vc: ValueClass, pc: PromiseClass, seeded: bool, rk: usize) {
    <P as Gx>::case_reset();
    let mut rng = ctx.rng(&format!("c01-{GROUP}"), id as u64);
    let mut case = Case::random(cfg, vc, pc, seeded, &mut rng);
    // degenerate but valid witnesses: an all-zero blinding vector (and, with value 0, an identity commitment)
    if id % 13 == 0 {
        let j = id % cfg.m;
        case.blindings[j] = vec![Scalar::ZERO; cfg.ext];
        if id % 26 == 0 {
            case.values[j] = 0;
            case.promises[j] = if id % 52 == 0 { Some(0) } else { None };
        }
        case.commitments[j] = commit(case.params().pc_gens(), case.values[j], &case.blindings[j]);
        rep.count("zero_blinding_cases", 1);
        if case.commitments[j] == P::identity() {
            rep.count("identity_commitment_cases", 1);
        }
    }
    let kind = rng_kinds(rng.next_u64())[rk].clone();
    let replay = json!({"tier": if ctx.thorough() {"thorough"} else {"quick"}, "seed": ctx.seed, "leg": if <P as Gx>::IS_FM {"fm"} else {"ris"},
        "case": id, "descr": case.json(), "rng": format!("{kind:?}")});
    let sig_cfg = format!("{GROUP} bits={} m={} cap={} ext={}", cfg.n, cfg.m, cfg.cap, cfg.ext);
    rep.eval(&(GROUP, case.key(), kind.clone()));
    rep.count(&format!("cases_{GROUP}"), 1);
    rep.count(&format!("rng_{}", rk), 1);
    if let Err(e) = RangeStatement::init(case.params(), case.commitments.clone(), case.promises.clone(), case.seed) {
        rep.violation(&format!("C01 statement-refused {sig_cfg}"), &format!("the statement constructor refuses a valid statement (identity commitment present: {}): {e}", case.commitments.iter().any(|c| *c == P::identity())), replay);
        return;
    }
    if let Err(e) = case.try_witness() {
        rep.violation(&format!("C01 witness-refused {sig_cfg}"), &format!("the witness constructor refuses a valid witness (blindings zero: {}): {e}", case.blindings.iter().flatten().any(|b| *b == Scalar::ZERO)), replay);
        return;
    }
    let mut prng = FaultRng::new(kind.clone());
    let proof = match no_panic(|| case.prove(&mut prng)) {
        Ok(Ok(p)) => p,
        Ok(Err(e)) => {
            rep.violation(&format!("C01 prove-refused {sig_cfg}"), &format!("prover refused a valid witness: {e}"), replay);
            return;
        },
        Err(p) => {
            rep.violation(&format!("C01 prove-panic {sig_cfg}"), &format!("prover panicked on a valid witness: {p}"), replay);
            return;
        },
    };
    rep.count("proofs", 1);
    // every mode, private and public statement, identically initialised transcript
    let mut failed = false;
    for (st, who) in [(case.statement(), "private"), (case.statement_public(), "public")] {
        for action in ACTIONS {
            <P as Gx>::probe_arm();
            let r = no_panic(|| verify_one(&case.transcript(), &st, &proof, action));
            let probe = <P as Gx>::probe_take();
            rep.count("verifies", 1);
            match r {
                Ok(Ok(_)) => {},
                Ok(Err(e)) => {
                    rep.violation(
                        &format!("C01 verify-rejected {} {sig_cfg}", action_name(action)),
                        &format!("honest proof rejected ({who} statement, {}): {e}", action_name(action)),
                        replay.clone(),
                    );
                    failed = true;
                    continue;
                },
                Err(p) => {
                    rep.violation(&format!("C01 verify-panic {sig_cfg}"), &format!("verifier panicked on an honest proof: {p}"), replay.clone());
                    failed = true;
                    continue;
                },
            }
            if action != VerifyAction::RecoverOnly {
                if let Some(f) = probe {
                    rep.count("residuals_observed", 1);
                    rep.count("residual_coordinates_checked", f.static_len as u64);
                    if f.residual_nnz != 0 || f.static_len != f.table_len {
                        rep.violation(
                            &format!("C01 residual-nonzero {sig_cfg}"),
                            &format!("verifier accepted but the captured residual has {} non-zero coordinates (static {} / table {})", f.residual_nnz, f.static_len, f.table_len),
                            replay.clone(),
                        );
                    }
                }
            }
        }
    }
    if failed {
        return;
    }
    // the same bytes through the codec (zero-round proofs cannot be decoded: that is C15's known finding)
    if cfg.mn() > 1 {
        match Proof::from_bytes(&proof.to_bytes()) {
            Ok(p2) => {
                if verify_one(&case.transcript(), &case.statement_public(), &p2, VerifyAction::VerifyOnly).is_err() {
                    rep.violation(&format!("C01 verify-rejected decoded {sig_cfg}"), "honest proof rejected after encode/decode", replay.clone());
                }
            },
            Err(e) => rep.violation(&format!("C01 decode-refused {sig_cfg}"), &format!("honest proof does not decode: {e}"), replay.clone()),
        }
    }
    // the convenience entry point that draws from the operating system's generator, and the proof's degree accessor
    if id % 8 == 3 {
        rep.count("os_rng_proofs", 1);
        match no_panic(|| RangeProof::prove(&mut case.transcript(), &case.statement(), &case.witness())) {
            Ok(Ok(po)) => {
                if po.extension_degree() != case.params().extension_degree() || proof.extension_degree() != case.params().extension_degree() {
                    rep.violation(&format!("C01 degree-accessor {sig_cfg}"), "the proof's extension degree accessor differs from the statement's degree", replay.clone());
                }
                if let Err(e) = no_panic(|| verify_one(&case.transcript(), &case.statement_public(), &po, VerifyAction::VerifyOnly)).and_then(|r| r.map(|_| ()).map_err(|e| e.to_string())) {
                    rep.violation(&format!("C01 verify-rejected os-rng {sig_cfg}"), &format!("a proof made with the operating system's generator (RangeProof::prove) is rejected: {e}"), replay.clone());
                }
            },
            Ok(Err(e)) => rep.violation(&format!("C01 prove-refused {sig_cfg}"), &format!("RangeProof::prove (operating system's generator) refused a valid witness: {e}"), replay.clone()),
            Err(p) => rep.violation(&format!("C01 prove-panic {sig_cfg}"), &format!("RangeProof::prove panicked on a valid witness: {p}"), replay.clone()),
        }
    }
    // copies are the same objects: a statement / witness / proof copied with clone() or overwritten with clone_from()
    // (onto an object of another shape) proves and verifies like the original
    if id % 4 == 0 {
        let other_cfg = Cfg::new(if cfg.n > 1 { cfg.n / 2 } else { 2 }, 1, 1, cfg.ext);
        let other = Case::random(other_cfg, ValueClass::One, PromiseClass::AllZero, false, &mut rng);
        let mut st2 = other.statement();
        st2.clone_from(&case.statement());
        let mut w2 = other.witness();
        w2.clone_from(&case.witness());
        let mut p2 = proof.clone();
        p2.clone_from(&proof);
        rep.count("copies_checked", 1);
        let again = no_panic(|| RangeProof::prove_with_rng(&mut case.transcript(), &st2, &w2, &mut FaultRng::new(kind.clone())));
        match again {
            Ok(Ok(pa)) => {
                if pa.to_bytes() != proof.to_bytes() {
                    rep.violation(&format!("C01 copy-differs {sig_cfg}"), "proving over clone_from() copies of the statement and witness with the same RNG stream gives other proof bytes", replay.clone());
                }
            },
            Ok(Err(e)) => rep.violation(&format!("C01 copy-differs {sig_cfg}"), &format!("the prover refuses clone_from() copies of a valid statement and witness: {e}"), replay.clone()),
            Err(p) => rep.violation(&format!("C01 copy-differs {sig_cfg}"), &format!("the prover panics on clone_from() copies of a valid statement and witness: {p}"), replay.clone()),
        }
        match no_panic(|| verify_one(&case.transcript(), &st2, &p2, VerifyAction::RecoverAndVerify)) {
            Ok(Ok(_)) => {},
            Ok(Err(e)) => rep.violation(&format!("C01 copy-differs {sig_cfg}"), &format!("an honest proof is rejected under a clone_from() copy of its statement: {e}"), replay.clone()),
            Err(p) => rep.violation(&format!("C01 copy-differs {sig_cfg}"), &format!("verifier panicked on a clone_from() copy of the statement: {p}"), replay.clone()),
        }
    }
    // the independent reference evaluation of the relation (at the challenges the library drew) vanishes too
    {
        let parts = Parts::of(&proof);
        let (_, ok) = verdict_pair(&case.transcript(), &case.statement_public(), &proof, &case.ref_statement(), &parts, VerifyAction::VerifyOnly);
        rep.count("reference_verdicts", 1);
        if !ok {
            rep.violation(&format!("C01 reference-rejects {sig_cfg}"), "the independent reference evaluation of the relation does not vanish on the library's honest proof", replay.clone());
        }
    }
    rep.sample(&format!("{GROUP}-{:?}", kind).chars().take(24).collect::<String>(), json!({"case": case.json(), "rng": format!("{kind:?}"), "proof_bytes": proof.to_bytes().len()}));
}
