// C05 — any single alteration of an accepted triple is rejected (error value; never success, never panic).

pub fn run(ctx: &Ctx, rep: &mut Report) {
    let (max_mn, max_ncap) = if <P as Gx>::IS_FM { (1024, 2048) } else { (128, 256) };
    let mut cfgs = lattice_systematic(max_mn, max_ncap, ctx.thorough() && <P as Gx>::IS_FM);
    let nrand = if ctx.thorough() { 150 } else { 12 };
    cfgs.extend(lattice_random(&mut ctx.rng(&format!("c05-lattice-{GROUP}"), 0), nrand, max_mn, max_ncap));
    let reps = if ctx.thorough() && !<P as Gx>::IS_FM { 3 } else { 1 };
    let mut id = 0usize;
    for (k, cfg) in cfgs.iter().enumerate() {
        for r in 0..reps {
            id += 1;
            if ctx.mine(id) {
                one(ctx, rep, id, *cfg, k + r);
            }
        }
    }
    // batch context: the altered member sits inside a batch (first / last / the largest member)
    let nb = if ctx.thorough() { 1500 } else { 40 };
    for b in 0..nb {
        id += 1;
        if ctx.mine(id) {
            in_batch(ctx, rep, id, b);
        }
    }
}

fn one(ctx: &Ctx, rep: &mut Report, id: usize, cfg: Cfg, k: usize) {
    <P as Gx>::case_reset();
    let leg = if <P as Gx>::IS_FM { "fm" } else { "ris" };
    let mut rng = ctx.rng(&format!("c05-{GROUP}"), id as u64);
    let case = Case::random(cfg, VALUE_CLASSES[k % 6], PROMISE_CLASSES[(k / 3) % 5], k % 2 == 0, &mut rng);
    let replay = |what: &str| json!({"tier": if ctx.thorough() {"thorough"} else {"quick"}, "seed": ctx.seed, "leg": leg, "case": id, "descr": case.json(), "alteration": what});
    let mut prng = FaultRng::new(RngKind::Healthy(rng.next_u64()));
    let Ok(proof) = case.prove(&mut prng) else {
        rep.note("C05: prover refused a valid case (see C01)".into());
        return;
    };
    // the triple must be accepted to begin with
    if verify_one(&case.transcript(), &case.statement(), &proof, VerifyAction::RecoverAndVerify).is_err() {
        rep.note("C05: honest proof rejected (see C01)".into());
        return;
    }
    rep.count("accepted_triples", 1);
    let parts = Parts::of(&proof);
    let other = {
        let c2 = Case::random(cfg, ValueClass::RandomLow, PromiseClass::AllNone, false, &mut rng);
        c2.prove(&mut prng).ok().map(|p| Parts::of(&p))
    };
    let density = if ctx.thorough() { 4 } else { 2 };
    let muts = mutations(&case, &parts, other.as_ref(), density, &mut rng);
    // verifier roles: public verifier; owner with the seed in both verifying modes
    let mut roles: Vec<(Option<Scalar>, VerifyAction, &str)> = vec![(None, VerifyAction::VerifyOnly, "public/VerifyOnly")];
    if let Some(s) = case.seed {
        roles.push((Some(s), VerifyAction::RecoverAndVerify, "owner/RecoverAndVerify"));
        roles.push((Some(s), VerifyAction::VerifyOnly, "owner/VerifyOnly"));
    } else {
        roles.push((None, VerifyAction::RecoverAndVerify, "public/RecoverAndVerify"));
    }
    let alteration_names: Vec<String> = muts.iter().map(|m| m.name.clone()).collect();
    for mu in muts {
        if cfg.mn() == 1 && matches!(mu.alter, Alter::Proof(_)) {
            // zero folding rounds: proofs cannot be rebuilt through the codec (C15 known finding)
            continue;
        }
        for (seed, action, role) in roles.iter() {
            rep.eval(&(GROUP, case.key(), mu.name.clone(), *role));
            rep.count("alterations_checked", 1);
            let outcome = no_panic(|| match apply_mutation(&case, &proof, &parts, *seed, &mu) {
                Err(e) => Err(format!("refused: {e}")),
                Ok(alt) => {
                    <P as Gx>::probe_arm();
                    let r = verify_one(&alt.t, &alt.st, &alt.proof, *action);
                    let f = <P as Gx>::probe_take();
                    match r {
                        Ok(_) => Ok(f),
                        Err(e) => Err(format!("{e}|{}", f.map(|f| f.residual_nnz).unwrap_or(0))),
                    }
                },
            });
            let class: String = mu.name.chars().filter(|c| !c.is_ascii_digit()).collect();
            match outcome {
                Err(p) => rep.violation(&format!("C05 panic [{class}]"), &format!("`{}` made the verifier panic: {p}", mu.name), replay(&mu.name)),
                Ok(Ok(_)) => {
                    if mu.noop {
                        rep.count("noop_alterations_still_accepted", 1);
                    } else {
                        rep.violation(
                            &format!("C05 accepted [{class}] {role}"),
                            &format!("after `{}` the triple is still accepted ({role})", mu.name),
                            replay(&mu.name),
                        );
                    }
                },
                Ok(Err(e)) => {
                    if mu.noop {
                        rep.violation(&format!("C05 noop-rejected [{class}]"), &format!("`{}` must not change the verdict but the triple is now rejected: {e}", mu.name), replay(&mu.name));
                    } else {
                        rep.count("alterations_rejected", 1);
                        if e.starts_with("refused") {
                            rep.count("rejected_by_codec_or_constructor", 1);
                        } else if e.rsplit('|').next().and_then(|x| x.parse::<usize>().ok()).unwrap_or(0) > 0 {
                            rep.count("rejected_by_final_identity_nonzero_residual_seen", 1);
                        }
                    }
                },
            }
        }
    }
    rep.sample(GROUP, json!({"case": case.json(), "roles": roles.iter().map(|r| r.2).collect::<Vec<_>>(), "alterations": alteration_names.len(),
        "alterations_sample": alteration_names.iter().step_by((alteration_names.len() / 14).max(1)).take(16).collect::<Vec<_>>()}));
}

fn in_batch(ctx: &Ctx, rep: &mut Report, id: usize, b: usize) {
    <P as Gx>::case_reset();
    clear_params_cache();
    let leg = if <P as Gx>::IS_FM { "fm" } else { "ris" };
    let mut rng = ctx.rng(&format!("c05-batch-{GROUP}"), id as u64);
    let n = [2usize, 4, 8][b % 3];
    let ext = 1 + (b % 6);
    // aggregation patterns with the strictly largest member first / in the middle / last
    let pattern: &[usize] = [&[1usize, 2][..], &[1, 4, 2], &[2, 1], &[1, 1, 2], &[4, 1, 1], &[1, 2, 4, 1]][b % 6];
    let mut cases = vec![];
    let mut proofs = vec![];
    for (i, &m) in pattern.iter().enumerate() {
        let cfg = Cfg::new(n, m, (m << (i % 2)).min(8), ext);
        let case = Case::random(cfg, VALUE_CLASSES[(i + b) % 6], PROMISE_CLASSES[(i + b) % 5], true, &mut rng);
        let mut prng = FaultRng::new(RngKind::Healthy(rng.next_u64()));
        let Ok(p) = case.prove(&mut prng) else { return };
        cases.push(case);
        proofs.push(p);
    }
    let k = cases.len();
    let ts: Vec<Transcript> = cases.iter().map(|c| c.transcript()).collect();
    let sts: Vec<Stmt> = cases.iter().map(|c| c.statement()).collect();
    if verify_many(&ts, &sts, &proofs, VerifyAction::RecoverAndVerify).is_err() {
        rep.note("C05: honest batch rejected (see C03)".into());
        return;
    }
    rep.count("accepted_batches", 1);
    for j in 0..k {
        let parts = Parts::of(&proofs[j]);
        let muts = mutations(&cases[j], &parts, None, 1, &mut rng);
        for mu in muts {
            if cases[j].cfg.mn() == 1 && matches!(mu.alter, Alter::Proof(_)) {
                continue;
            }
            let replay = json!({"tier": if ctx.thorough() {"thorough"} else {"quick"}, "seed": ctx.seed, "leg": leg, "case": id,
                "descr": {"batch_aggregations": pattern, "bits": n, "ext": ext, "altered_member": j, "alteration": mu.name}});
            for action in [VerifyAction::VerifyOnly, VerifyAction::RecoverAndVerify] {
                rep.eval(&(GROUP, "batch", b, j, mu.name.clone(), action_name(action)));
                rep.count("alterations_checked", 1);
                rep.count("alterations_inside_batches", 1);
                let outcome = no_panic(|| {
                    let alt = apply_mutation(&cases[j], &proofs[j], &parts, cases[j].seed, &mu)?;
                    let mut ts2 = ts.clone();
                    let mut sts2 = sts.clone();
                    let mut pr2 = proofs.clone();
                    ts2[j] = alt.t;
                    sts2[j] = alt.st;
                    pr2[j] = alt.proof;
                    verify_many(&ts2, &sts2, &pr2, action).map(|_| ()).map_err(|e| e.to_string())
                });
                let class: String = mu.name.chars().filter(|c| !c.is_ascii_digit()).collect();
                match outcome {
                    Err(p) => rep.violation(&format!("C05 panic batch [{class}]"), &format!("`{}` on batch member {j} made the verifier panic: {p}", mu.name), replay.clone()),
                    Ok(Ok(())) if !mu.noop => rep.violation(
                        &format!("C05 accepted in-batch [{class}]"),
                        &format!("after `{}` on member {j} of a batch with aggregations {pattern:?} the batch is still accepted ({})", mu.name, action_name(action)),
                        replay.clone(),
                    ),
                    Ok(Err(e)) if mu.noop => rep.violation(&format!("C05 noop-rejected batch [{class}]"), &format!("`{}` changed the batch verdict: {e}", mu.name), replay.clone()),
                    Ok(Ok(())) => rep.count("noop_alterations_still_accepted", 1),
                    Ok(Err(_)) => rep.count("alterations_rejected", 1),
                }
            }
        }
    }
    rep.sample(&format!("{GROUP}-batch"), json!({"batch_aggregations": pattern, "bits": n, "ext": ext}));
}
