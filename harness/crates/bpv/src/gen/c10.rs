// C10 — recovery is keyed by the seed and never changes the verdict; RecoverOnly agrees with RecoverAndVerify.

fn wrong_seeds(s: &Scalar, rng: &mut impl RngCore, dense: bool) -> Vec<(String, Scalar)> {
    let mut v = vec![("seed + 1".to_string(), s + Scalar::ONE), ("random".to_string(), rand_scalar(rng)), ("negated".to_string(), -s), ("zero".to_string(), Scalar::ZERO), ("one".to_string(), Scalar::ONE)];
    // seeds differing from the right one in a single byte position (structured, not random)
    let bytes: Vec<usize> = if dense { (0..32).collect() } else { vec![0, 1, 15, 16, 30, 31] };
    for i in bytes {
        let mut b = s.to_bytes();
        // flip the lowest bit of byte i; for the top byte keep the value canonical (< 2^252)
        b[i] ^= 1;
        if let Some(x) = Option::<Scalar>::from(Scalar::from_canonical_bytes(b)) {
            if x != *s {
                v.push((format!("byte {i} differs"), x));
            }
        }
    }
    v
}

pub fn run(ctx: &Ctx, rep: &mut Report) {
    let leg = if <P as Gx>::IS_FM { "fm" } else { "ris" };
    let reps = if ctx.thorough() { 120 } else { 3 };
    let mut id = 0usize;
    for (bi, &n) in BITS.iter().enumerate() {
        for ext in 1..=6usize {
            for r in 0..reps {
                id += 1;
                if !ctx.mine(id) {
                    continue;
                }
                if !<P as Gx>::IS_FM && !ctx.thorough() && (bi + ext) % 2 == 1 {
                    continue;
                }
                one(ctx, rep, id, Cfg::new(n, 1, [1usize, 2, 4][(bi + ext + r) % 3], ext), bi + ext + r, leg);
            }
        }
    }
}

fn one(ctx: &Ctx, rep: &mut Report, id: usize, cfg: Cfg, k: usize, leg: &str) {
    <P as Gx>::case_reset();
    let mut rng = ctx.rng(&format!("c10-{GROUP}"), id as u64);
    let case = Case::random(cfg, VALUE_CLASSES[k % 6], PROMISE_CLASSES[k % 5], true, &mut rng);
    let seed = case.seed.unwrap();
    let replay = |what: &str| json!({"tier": if ctx.thorough() {"thorough"} else {"quick"}, "seed": ctx.seed, "leg": leg, "case": id, "descr": case.json(), "step": what});
    let mut prng = FaultRng::new(RngKind::Healthy(rng.next_u64()));
    let Ok(proof) = case.prove(&mut prng) else {
        rep.note("C10: prover refused a valid case (see C01)".into());
        return;
    };
    let truth = case.blindings[0].clone();
    let t = case.transcript();
    let prm = case.params();
    // (i) wrong seed: Ok(Some(mask')) with mask' != true mask, in both recovering modes
    let wrongs = wrong_seeds(&seed, &mut rng, ctx.thorough() || k % 4 == 0);
    for (nm, s2) in &wrongs {
        let st = case.statement_with(&prm, &case.promises, Some(*s2));
        for action in [VerifyAction::RecoverAndVerify, VerifyAction::RecoverOnly] {
            rep.eval(&(GROUP, case.key(), nm.clone(), action_name(action)));
            rep.count("wrong_seed_recoveries", 1);
            let class: String = nm.chars().filter(|c| !c.is_ascii_digit()).collect();
            match no_panic(|| verify_one(&t, &st, &proof, action)) {
                Err(p) => rep.violation("C10 panic", &format!("verify_batch panicked with a wrong seed: {p}"), replay(nm)),
                Ok(Err(e)) => rep.violation(&format!("C10 wrong-seed-error [{class}]"), &format!("recovering with a wrong seed ({nm}) is an error instead of a different mask: {e}"), replay(nm)),
                Ok(Ok(m)) => match mask_vec(&m) {
                    None => rep.violation(&format!("C10 wrong-seed-no-mask [{class}]"), &format!("recovering with a wrong seed ({nm}) returned no mask"), replay(nm)),
                    Some(g) => {
                        if g == truth {
                            rep.violation(&format!("C10 wrong-seed-recovers-true-mask [{class}]"), &format!("a seed different from the prover's ({nm}) recovered the TRUE mask ({})", action_name(action)), replay(nm));
                        } else if g.iter().zip(truth.iter()).any(|(a, b)| a == b) {
                            rep.violation(&format!("C10 wrong-seed-partial-mask [{class}]"), &format!("a wrong seed ({nm}) recovered some components of the true mask"), replay(nm));
                        }
                    },
                },
            }
        }
    }
    // (ii) the verdict does not depend on the seed or on the recovering mode - on valid and invalid proofs
    let parts = Parts::of(&proof);
    let mut inputs: Vec<(String, Mutation)> = vec![("honest".to_string(), Mutation { name: "honest".into(), alter: Alter::Ctx(case.ctx.clone()), noop: true })];
    if cfg.mn() > 1 {
        for mu in mutations(&case, &parts, None, 1, &mut rng) {
            inputs.push((mu.name.clone(), mu));
        }
    }
    let seeds: [(Option<Scalar>, &str); 3] = [(None, "no seed"), (Some(seed), "right seed"), (Some(wrongs[1].1), "wrong seed")];
    for (nm, mu) in inputs {
        let mut verdicts: Vec<(String, bool)> = vec![];
        let mut rec_and_verify_mask: Option<Option<Vec<Scalar>>> = None;
        let mut rec_only_mask: Option<Option<Vec<Scalar>>> = None;
        let mut panicked = false;
        for (s, sname) in seeds.iter() {
            let alt = apply_mutation(&case, &proof, &parts, *s, &mu);
            for action in [VerifyAction::VerifyOnly, VerifyAction::RecoverAndVerify] {
                rep.count("verdicts_compared", 1);
                let r = match &alt {
                    Err(_) => Ok(Err(())),
                    Ok(a) => no_panic(|| verify_one(&a.t, &a.st, &a.proof, action).map_err(|_| ())),
                };
                match r {
                    Err(p) => {
                        panicked = true;
                        rep.violation("C10 panic", &format!("verify_batch panicked on `{nm}` ({sname}): {p}"), replay(&nm));
                    },
                    Ok(res) => {
                        if *sname == "right seed" && action == VerifyAction::RecoverAndVerify {
                            rec_and_verify_mask = res.as_ref().ok().map(mask_vec);
                        }
                        verdicts.push((format!("{sname}/{}", action_name(action)), res.is_ok()));
                    },
                }
            }
            if *sname == "right seed" {
                if let Ok(a) = &alt {
                    if let Ok(Ok(m)) = no_panic(|| verify_one(&a.t, &a.st, &a.proof, VerifyAction::RecoverOnly)) {
                        rec_only_mask = Some(mask_vec(&m));
                    }
                }
            }
        }
        if panicked {
            continue;
        }
        rep.eval(&(GROUP, case.key(), "verdict", nm.clone()));
        let class: String = nm.chars().filter(|c| !c.is_ascii_digit()).collect();
        if verdicts.iter().any(|(_, v)| *v != verdicts[0].1) {
            rep.violation(
                &format!("C10 verdict-depends-on-seed-or-mode [{class}]"),
                &format!("the verdict on `{nm}` differs across seed settings / modes: {verdicts:?}"),
                replay(&nm),
            );
        }
        if verdicts[0].1 {
            rep.count("accepted_inputs", 1);
        } else {
            rep.count("rejected_inputs", 1);
        }
        // (iii) for accepted proofs RecoverOnly returns the same masks as RecoverAndVerify
        if let (Some(a), Some(b)) = (&rec_and_verify_mask, &rec_only_mask) {
            rep.count("recover_only_vs_recover_and_verify", 1);
            if a != b {
                rep.violation("C10 recover-only-differs", &format!("RecoverOnly and RecoverAndVerify return different masks on the accepted input `{nm}`"), replay(&nm));
            }
        }
    }
    // (iv) in a batch the verdict does not depend on which seeds the statements carry (equal, distinct, absent)
    {
        let c2 = Case::random(cfg, VALUE_CLASSES[(k + 1) % 6], PROMISE_CLASSES[(k + 2) % 5], true, &mut rng);
        if let Ok(p2) = c2.prove(&mut prng) {
            let ts = vec![t.clone(), c2.transcript(), t.clone()];
            let proofs = vec![proof.clone(), p2.clone(), proof.clone()];
            let mut bad = proofs.clone();
            if cfg.mn() > 1 {
                let mut pp = Parts::of(&p2);
                pp.s1 = (Scalar::from_canonical_bytes(pp.s1).unwrap() + Scalar::ONE).to_bytes();
                bad[1] = pp.to_proof().unwrap();
            }
            let seedings: Vec<(&str, [Option<Scalar>; 3])> = vec![
                ("no seeds", [None, None, None]),
                ("one seed for all", [Some(seed), Some(seed), Some(seed)]),
                ("own seeds", [Some(seed), c2.seed, Some(seed)]),
                ("distinct wrong seeds", [Some(wrongs[1].1), Some(wrongs[0].1), Some(wrongs[2].1)]),
            ];
            for (which, prs, expect) in [("valid batch", &proofs, true), ("batch with an invalid member", &bad, false)] {
                if !expect && cfg.mn() == 1 {
                    continue;
                }
                let mut verdicts = vec![];
                for (sname, ss) in &seedings {
                    let sts = vec![case.statement_with(&prm, &case.promises, ss[0]), c2.statement_with(&c2.params(), &c2.promises, ss[1]), case.statement_with(&prm, &case.promises, ss[2])];
                    for action in [VerifyAction::VerifyOnly, VerifyAction::RecoverAndVerify] {
                        rep.count("batch_verdicts_compared", 1);
                        verdicts.push((format!("{sname}/{}", action_name(action)), no_panic(|| verify_many(&ts, &sts, prs, action).is_ok()).unwrap_or(false)));
                    }
                }
                rep.eval(&(GROUP, case.key(), "batch-seeds", which));
                if verdicts.iter().any(|(_, v)| *v != expect) {
                    rep.violation(
                        &format!("C10 batch-verdict-depends-on-seeds [{which}]"),
                        &format!("the verdict on a {which} of three depends on the seeds its statements carry (expected {expect} throughout): {verdicts:?}"),
                        replay(which),
                    );
                }
            }
        }
    }
    // (iv') the verdict on a pair of individually invalid proofs whose defects are tuned to the batch factors seen on
    // the previous run is "rejected" in both verifying modes, with and without seeds (over the free-module group,
    // where the factors can be read off the final multiscalar multiplication)
    if <P as Gx>::IS_FM && cfg.mn() > 1 {
        let c2 = Case::random(cfg, VALUE_CLASSES[(k + 2) % 6], PROMISE_CLASSES[(k + 4) % 5], true, &mut rng);
        if let Ok(p2) = c2.prove(&mut prng) {
            let ts = vec![t.clone(), c2.transcript()];
            let bump = |p: &Proof, d: &Scalar| -> Proof {
                let mut parts = Parts::of(p);
                parts.d1[0] = (Scalar::from_canonical_bytes(parts.d1[0]).unwrap() + d).to_bytes();
                parts.to_proof().unwrap()
            };
            let bs: Vec<P> = [&proof, &p2].iter().filter_map(|x| Parts::of(x).to_ref().map(|r| r.b)).collect();
            for (sname, ss) in [("no seeds", [None, None]), ("own seeds", [Some(seed), c2.seed])] {
                let sts = vec![case.statement_with(&prm, &case.promises, ss[0]), c2.statement_with(&c2.params(), &c2.promises, ss[1])];
                for action in [VerifyAction::VerifyOnly, VerifyAction::RecoverAndVerify] {
                    let di = rand_scalar(&mut rng);
                    let mut dj = -di;
                    for round in 0..3 {
                        let pr = vec![bump(&proof, &di), bump(&p2, &dj)];
                        <P as Gx>::probe_arm();
                        let r = no_panic(|| verify_many(&ts, &sts, &pr, action));
                        let w = <P as Gx>::probe_take_weights(&bs);
                        rep.count("adaptive_pair_verdicts", 1);
                        if let Ok(Ok(_)) = r {
                            rep.violation(
                                &format!("C10 verdict-depends-on-mode adaptive-pair {}", action_name(action)),
                                &format!("two individually invalid proofs with offsetting defects (tuned to the factors of the previous run, round {round}) are accepted in {} ({sname}); each alone is rejected in every mode", action_name(action)),
                                replay("adaptive pair"),
                            );
                            break;
                        }
                        match w {
                            Some(w) if w.len() == 2 && w[1] != Scalar::ZERO => dj = -di * w[0] * w[1].invert(),
                            _ => break,
                        }
                    }
                }
            }
            rep.eval(&(GROUP, case.key(), "adaptive-pair"));
        }
    }
    // (v) in a batch whose members share one seed (a wallet scanning its own outputs), RecoverOnly returns the same
    // masks as RecoverAndVerify, member by member - and for members made with that seed, the true mask
    {
        let mut c3 = Case::random(cfg, VALUE_CLASSES[(k + 3) % 6], PROMISE_CLASSES[(k + 1) % 5], true, &mut rng);
        c3.seed = Some(seed);
        let c4 = Case::random(cfg, VALUE_CLASSES[(k + 4) % 6], PROMISE_CLASSES[(k + 3) % 5], true, &mut rng);
        if let (Ok(p3), Ok(p4)) = (c3.prove(&mut prng), c4.prove(&mut prng)) {
            // members: own proof, another proof under the same seed, a proof made under another seed but scanned
            // with this one, an unseeded statement in between, the first proof again
            let ts = vec![t.clone(), c3.transcript(), c4.transcript(), c3.transcript(), t.clone()];
            let proofs = vec![proof.clone(), p3.clone(), p4.clone(), p3.clone(), proof.clone()];
            let sts = vec![
                case.statement_with(&prm, &case.promises, Some(seed)),
                c3.statement_with(&c3.params(), &c3.promises, Some(seed)),
                c4.statement_with(&c4.params(), &c4.promises, Some(seed)),
                c3.statement_with(&c3.params(), &c3.promises, None),
                case.statement_with(&prm, &case.promises, Some(seed)),
            ];
            let both: Vec<Option<Vec<Option<Vec<Scalar>>>>> = [VerifyAction::RecoverAndVerify, VerifyAction::RecoverOnly]
                .iter()
                .map(|a| no_panic(|| verify_many(&ts, &sts, &proofs, *a)).ok().and_then(|r| r.ok()).map(|v| v.iter().map(mask_vec).collect()))
                .collect();
            rep.eval(&(GROUP, case.key(), "shared-seed-batch"));
            rep.count("shared_seed_batches", 1);
            match (&both[0], &both[1]) {
                (Some(a), Some(b)) => {
                    if a != b {
                        let first = (0..a.len().min(b.len())).find(|i| a[*i] != b[*i]);
                        rep.violation("C10 recover-only-differs shared-seed-batch", &format!("in a batch whose statements share one seed, RecoverOnly and RecoverAndVerify return different masks (first at member {first:?})"), replay("shared-seed batch"));
                    }
                    let want = [Some(case.blindings[0].clone()), Some(c3.blindings[0].clone())];
                    if a.len() != 5 || a[0] != want[0] || a[1] != want[1] || a[4] != want[0] || a[3].is_some() || a[2] == Some(c4.blindings[0].clone()) {
                        rep.violation("C10 shared-seed-batch-masks", "in a batch whose statements share one seed the masks of members made with that seed are not their blinding vectors (or a member made under another seed yields its true mask, or an unseeded member yields a mask)", replay("shared-seed batch"));
                    }
                },
                _ => rep.violation("C10 shared-seed-batch-rejected", "a valid batch whose statements share one seed was rejected or panicked in a recovering mode", replay("shared-seed batch")),
            }
        }
    }
    rep.sample(GROUP, json!({"case": case.json(), "wrong_seeds": wrongs.iter().map(|w| w.0.clone()).collect::<Vec<_>>()}));
}
