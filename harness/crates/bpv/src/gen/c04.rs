// C04 — Fiat-Shamir binding, observed at the merlin API boundary.
//  A. trace containment: every datum the challenge must depend on is appended (to the caller's own transcript
//     or a fork of it) before that challenge is drawn - prover and verifier, single and batch;
//  B. differential dependency: change one datum, compare the challenge sequences pairwise;
//  C. an honest proof re-verified under a perturbed context is rejected.

use merlin::probe::{self, Event, Kind};

/// Follow Clone lineage: the original transcript this id was forked from
fn root_of(events: &[Event], id: u64) -> u64 {
    let mut cur = id;
    loop {
        match events.iter().find(|e| e.kind == Kind::Clone && e.id2 == cur) {
            Some(e) => cur = e.id,
            None => return cur,
        }
    }
}

/// Ids of the transcripts on which protocol challenges were drawn, in order of first use
fn challenge_ids(events: &[Event]) -> Vec<u64> {
    let mut v = vec![];
    for e in events {
        if e.kind == Kind::Challenge && !v.contains(&e.id) {
            v.push(e.id);
        }
    }
    v
}

fn challenges_on(events: &[Event], id: u64) -> Vec<Vec<u8>> {
    events.iter().filter(|e| e.kind == Kind::Challenge && e.id == id).map(|e| e.data.clone()).collect()
}

fn le_value(b: &[u8]) -> Option<u64> {
    if b.is_empty() || b.len() > 8 {
        return None;
    }
    let mut a = [0u8; 8];
    a[..b.len()].copy_from_slice(b);
    Some(u64::from_le_bytes(a))
}

#[derive(Clone, Debug)]
enum Datum {
    Bytes(String, Vec<u8>),
    Int(String, u64),
}

/// Check that every datum in `req[k]` is appended on transcript `id` before challenge number `k` is drawn
/// (each append event can satisfy one datum only). Returns the names of missing data.
fn containment(events: &[Event], id: u64, req: &[(usize, Datum)]) -> Vec<String> {
    // positions of challenges on this transcript
    let chal_pos: Vec<usize> = events.iter().enumerate().filter(|(_, e)| e.kind == Kind::Challenge && e.id == id).map(|(i, _)| i).collect();
    let mut used = vec![false; events.len()];
    let mut missing = vec![];
    for (k, d) in req {
        let limit = match chal_pos.get(*k) {
            Some(p) => *p,
            None => {
                missing.push(format!("challenge #{k} was never drawn"));
                continue;
            },
        };
        let found = events.iter().enumerate().take(limit).position(|(i, e)| {
            !used[i] &&
                e.kind == Kind::Append &&
                e.id == id &&
                match d {
                    Datum::Bytes(_, b) => e.data == *b,
                    Datum::Int(_, v) => le_value(&e.data) == Some(*v),
                }
        });
        match found {
            Some(i) => used[i] = true,
            None => missing.push(match d {
                Datum::Bytes(n, _) => n.clone(),
                Datum::Int(n, _) => n.clone(),
            }),
        }
    }
    missing
}

fn required(st: &Stmt, parts: &Parts) -> Vec<(usize, Datum)> {
    let g = &st.generators;
    let mut r = vec![];
    r.push((0, Datum::Bytes("H".into(), enc(g.h_base()).to_vec())));
    for (k, x) in g.g_bases().iter().enumerate() {
        r.push((0, Datum::Bytes(format!("G[{k}]"), enc(x).to_vec())));
    }
    r.push((0, Datum::Int("bit length".into(), g.bit_length() as u64)));
    r.push((0, Datum::Int("extension degree".into(), g.extension_degree() as u64)));
    r.push((0, Datum::Int("aggregation factor".into(), st.commitments.len() as u64)));
    for (j, c) in st.commitments.iter().enumerate() {
        r.push((0, Datum::Bytes(format!("commitment[{j}]"), enc(c).to_vec())));
    }
    for (j, p) in st.minimum_value_promises.iter().enumerate() {
        r.push((0, Datum::Int(format!("promise[{j}]"), p.unwrap_or(0))));
    }
    r.push((0, Datum::Bytes("A".into(), parts.a.to_vec())));
    for (j, (l, rr)) in parts.lr.iter().enumerate() {
        r.push((2 + j, Datum::Bytes(format!("L[{j}]"), l.to_vec())));
        r.push((2 + j, Datum::Bytes(format!("R[{j}]"), rr.to_vec())));
    }
    let last = 2 + parts.lr.len();
    r.push((last, Datum::Bytes("A1".into(), parts.a1.to_vec())));
    r.push((last, Datum::Bytes("B".into(), parts.b.to_vec())));
    r
}

fn strip(name: &str) -> String {
    name.chars().filter(|c| !c.is_ascii_digit()).collect()
}

pub fn run(ctx: &Ctx, rep: &mut Report) {
    let (max_mn, max_ncap) = if <P as Gx>::IS_FM { (512, 1024) } else { (128, 256) };
    let mut cfgs = lattice_systematic(max_mn, max_ncap, false);
    let nrand = if ctx.thorough() { 200 } else { 16 };
    cfgs.extend(lattice_random(&mut ctx.rng(&format!("c04-lattice-{GROUP}"), 0), nrand, max_mn, max_ncap));
    let reps = if ctx.thorough() { 12 } else { 1 };
    let mut id = 0usize;
    for (k, cfg) in cfgs.iter().enumerate() {
        for r in 0..reps {
            id += 1;
            if ctx.mine(id) {
                single(ctx, rep, id, *cfg, k + r);
            }
        }
    }
    let nb = if ctx.thorough() { 3000 } else { 48 };
    for b in 0..nb {
        id += 1;
        if ctx.mine(id) {
            batch(ctx, rep, id, b);
        }
    }
}

/// Run the verifier under the probe; returns (events, id of the transcript the library worked on, Ok?)
fn probed_verify(t: &Transcript, st: &Stmt, proof: &Proof) -> (Vec<Event>, bool) {
    probe::arm();
    let mut ts = [t.clone()];
    let ok = RangeProof::verify_batch(&mut ts, std::slice::from_ref(st), std::slice::from_ref(proof), VerifyAction::VerifyOnly).is_ok();
    (probe::take(), ok)
}

fn single(ctx: &Ctx, rep: &mut Report, id: usize, cfg: Cfg, k: usize) {
    <P as Gx>::case_reset();
    let leg = if <P as Gx>::IS_FM { "fm" } else { "ris" };
    let mut rng = ctx.rng(&format!("c04-{GROUP}"), id as u64);
    let case = Case::random(cfg, VALUE_CLASSES[k % 6], PROMISE_CLASSES[(k / 2) % 5], k % 2 == 0, &mut rng);
    let replay = |what: &str| json!({"tier": if ctx.thorough() {"thorough"} else {"quick"}, "seed": ctx.seed, "leg": leg, "case": id, "descr": case.json(), "perturbation": what});
    let sig_cfg = format!("{GROUP}");
    // ---- A (prover): trace of the proving call
    let st = case.statement();
    let w = case.witness();
    let t0 = case.transcript();
    let mut tp = t0.clone();
    let mut prng = FaultRng::new(RngKind::Healthy(rng.next_u64()));
    probe::arm();
    let proof = RangeProof::prove_with_rng(&mut tp, &st, &w, &mut prng);
    let ev = probe::take();
    let Ok(proof) = proof else {
        rep.note("C04: prover refused a valid case (see C01)".into());
        return;
    };
    let parts = Parts::of(&proof);
    let req = required(&st, &parts);
    rep.eval(&(GROUP, "trace-prover", case.key()));
    rep.count("prover_traces", 1);
    rep.count("merlin_events_observed", ev.len() as u64);
    let ids = challenge_ids(&ev);
    if ids.len() != 1 {
        rep.violation(&format!("C04 prover-challenge-transcripts {sig_cfg}"), &format!("the prover drew challenges on {} transcripts", ids.len()), replay("prover trace"));
    } else {
        rep.count("data_items_checked", req.len() as u64);
        let missing = containment(&ev, ids[0], &req);
        if !missing.is_empty() {
            let classes: std::collections::BTreeSet<String> = missing.iter().map(|m| strip(m)).collect();
            rep.violation(
                &format!("C04 prover-trace-missing {classes:?}"),
                &format!("prover: not appended to the transcript before the challenge that must depend on it: {missing:?}"),
                replay("prover trace"),
            );
        }
        // the challenges are drawn on the caller's transcript object (or a fork of it)
        // (prove_with_rng takes &mut Transcript: the id is that of `tp`, cloned from t0 before arming: root is itself)
    }
    // ---- A (verifier)
    let stv = case.statement_public();
    let (evv, ok) = probed_verify(&t0, &stv, &proof);
    rep.eval(&(GROUP, "trace-verifier", case.key()));
    rep.count("verifier_traces", 1);
    rep.count("merlin_events_observed", evv.len() as u64);
    if !ok {
        rep.note("C04: honest proof rejected (see C01)".into());
    }
    let fork = evv.iter().find(|e| e.kind == Kind::Clone).map(|e| e.id2).unwrap_or(0);
    let vids: Vec<u64> = challenge_ids(&evv);
    let protocol_ids: Vec<u64> = vids.iter().copied().filter(|i| root_of(&evv, *i) == root_of(&evv, fork)).collect();
    if protocol_ids.len() != 1 {
        rep.violation(
            &format!("C04 verifier-not-on-caller-transcript {sig_cfg}"),
            &format!("the verifier drew protocol challenges on {} transcripts descending from the caller's (expected 1)", protocol_ids.len()),
            replay("verifier trace"),
        );
        return;
    }
    let vid = protocol_ids[0];
    rep.count("data_items_checked", req.len() as u64);
    let missing = containment(&evv, vid, &req);
    if !missing.is_empty() {
        let classes: std::collections::BTreeSet<String> = missing.iter().map(|m| strip(m)).collect();
        rep.violation(
            &format!("C04 verifier-trace-missing {classes:?}"),
            &format!("verifier: not appended to the transcript before the challenge that must depend on it: {missing:?}"),
            replay("verifier trace"),
        );
    }
    let base = challenges_on(&evv, vid);
    // prover and verifier derive the same challenges
    if ids.len() == 1 && challenges_on(&ev, ids[0]) != base {
        rep.violation(&format!("C04 prover-verifier-challenges-differ {sig_cfg}"), "prover and verifier derived different challenge sequences for the same proof", replay("prover vs verifier"));
    }
    // ---- B: differential dependency on the verifier side
    if cfg.mn() > 1 {
        let density = 1;
        let muts = mutations(&case, &parts, None, density, &mut rng);
        for mu in muts {
            // from which challenge index on must the sequence differ?
            let first_dep: Option<usize> = match &mu.alter {
                Alter::Ctx(_) | Alter::Promises(_) | Alter::Commitments(_) | Alter::Gens(..) => Some(0),
                Alter::Proof(p) => {
                    if p.lr.len() != parts.lr.len() || p.d1.len() != parts.d1.len() {
                        None // shape change: sequences are not comparable position by position
                    } else if p.a != parts.a {
                        Some(0)
                    } else if let Some(j) = (0..p.lr.len()).find(|j| p.lr[*j] != parts.lr[*j]) {
                        Some(2 + j)
                    } else if p.a1 != parts.a1 || p.b != parts.b {
                        Some(2 + parts.lr.len())
                    } else {
                        Some(usize::MAX) // response scalars: no challenge depends on them
                    }
                },
            };
            let Some(first_dep) = first_dep else { continue };
            let Ok(alt) = apply_mutation(&case, &proof, &parts, None, &mu) else { continue };
            let (eva, oka) = probed_verify(&alt.t, &alt.st, &alt.proof);
            let fork = eva.iter().find(|e| e.kind == Kind::Clone).map(|e| e.id2).unwrap_or(0);
            let aid = challenge_ids(&eva).into_iter().find(|i| root_of(&eva, *i) == root_of(&eva, fork));
            let Some(aid) = aid else {
                rep.count("perturbations_refused_before_challenges", 1);
                continue;
            };
            let pert = challenges_on(&eva, aid);
            if pert.len() != base.len() {
                rep.count("perturbations_refused_before_challenges", 1);
                continue;
            }
            rep.eval(&(GROUP, "diff", case.key(), mu.name.clone()));
            rep.count("perturbation_pairs", 1);
            let expect_all_equal = mu.noop;
            for (i, (b, p)) in base.iter().zip(pert.iter()).enumerate() {
                rep.count("challenge_pairs_compared", 1);
                let must_differ = !expect_all_equal && i >= first_dep;
                if must_differ && b == p {
                    rep.violation(
                        &format!("C04 challenge-independent-of [{}]", strip(&mu.name)),
                        &format!("challenge #{i} is unchanged after `{}`: it does not depend on that datum", mu.name),
                        replay(&mu.name),
                    );
                    break;
                }
                if !must_differ && b != p {
                    rep.violation(
                        &format!("C04 challenge-depends-on-later [{}]", strip(&mu.name)),
                        &format!("challenge #{i} changed after `{}`, which is absorbed later (or is value-wise the same datum)", mu.name),
                        replay(&mu.name),
                    );
                    break;
                }
            }
            // ---- C: an accepted proof under a perturbed context is rejected
            if matches!(mu.alter, Alter::Ctx(_)) {
                rep.count("context_reverifications", 1);
                if oka {
                    rep.violation("C04 accepted-under-other-context", &format!("honest proof accepted after `{}`", mu.name), replay(&mu.name));
                }
            }
        }
    }
    rep.sample(GROUP, json!({"case": case.json(), "prover_events": ev.len(), "verifier_events": evv.len(), "challenges": base.len(), "data_items": req.len()}));
}

/// Batches: every member's challenges are drawn on (a fork of) *its own* caller transcript, and perturbing one
/// member's context changes exactly that member's challenges.
fn batch(ctx: &Ctx, rep: &mut Report, id: usize, b: usize) {
    <P as Gx>::case_reset();
    clear_params_cache();
    let leg = if <P as Gx>::IS_FM { "fm" } else { "ris" };
    let mut rng = ctx.rng(&format!("c04-batch-{GROUP}"), id as u64);
    let n = [2usize, 4, 8][b % 3];
    let ext = 1 + (b % 6);
    // now and then a batch longer than the library's internal chunk of 256 members
    let big = b % 24 == 23;
    let k = if big { 257 + ((b / 24) % 4) * 43 } else { 2 + (b % 4) };
    let mut cases = vec![];
    let mut proofs = vec![];
    for i in 0..k {
        let m = if big { 1 } else { [1usize, 2, 4, 1][(i + b) % 4] };
        let cfg = Cfg::new(n, m, (m << (i % 2)).min(8), ext);
        let mut case = Case::random(cfg, VALUE_CLASSES[(i + b) % 6], PROMISE_CLASSES[i % 5], i % 2 == 1, &mut rng);
        // distinct contexts per member
        case.ctx.extra.push(vec![i as u8, (i >> 8) as u8, 0xC4]);
        let mut prng = FaultRng::new(RngKind::Healthy(rng.next_u64()));
        let Ok(p) = case.prove(&mut prng) else { return };
        cases.push(case);
        proofs.push(p);
    }
    let replay = json!({"tier": if ctx.thorough() {"thorough"} else {"quick"}, "seed": ctx.seed, "leg": leg, "case": id, "descr": {"batch": k, "bits": n, "ext": ext}});
    // all three modes, public and seed-carrying statements mixed (odd members were proved with a seed)
    let action = ACTIONS[b % 3];
    let seeded_view = b % 2 == 1;
    let sts: Vec<Stmt> = cases.iter().map(|c| if seeded_view { c.statement() } else { c.statement_public() }).collect();
    let run = |ctxs: &[Context]| -> (Vec<Event>, Vec<u64>, bool) {
        let originals: Vec<Transcript> = ctxs.iter().map(|c| c.transcript()).collect();
        probe::arm();
        let mut ts: Vec<Transcript> = originals.iter().map(|t| t.clone()).collect();
        let ok = RangeProof::verify_batch(&mut ts, &sts, &proofs, action).is_ok();
        let ev = probe::take();
        // the first k Clone events are the harness's own forks, in member order
        let forks: Vec<u64> = ev.iter().filter(|e| e.kind == Kind::Clone).take(ctxs.len()).map(|e| e.id2).collect();
        (ev, forks, ok)
    };
    let ctxs: Vec<Context> = cases.iter().map(|c| c.ctx.clone()).collect();
    let (ev, forks, ok) = run(&ctxs);
    rep.eval(&(GROUP, "batch-trace", k, n, ext, b));
    rep.count("batch_traces", 1);
    rep.count("merlin_events_observed", ev.len() as u64);
    if !ok {
        rep.note("C04: honest batch rejected (see C03)".into());
    }
    // member i: a transcript rooted at fork i carries member i's data before its challenges
    let ids = challenge_ids(&ev);
    let mut per_member: Vec<Vec<Vec<u8>>> = vec![];
    for i in 0..k {
        let mine: Vec<u64> = ids.iter().copied().filter(|x| forks.get(i).map(|f| descends(&ev, *x, *f)).unwrap_or(false)).collect();
        // when nothing is verified, a member that yields no mask need not be looked at; every other member's
        // challenges are drawn on exactly one transcript, descending from the one supplied for it
        let may_be_skipped = action == VerifyAction::RecoverOnly && sts[i].seed_nonce.is_none();
        if mine.is_empty() && may_be_skipped {
            per_member.push(vec![]);
            continue;
        }
        if mine.len() != 1 {
            rep.violation(
                "C04 batch-member-not-on-own-transcript",
                &format!("batch member {i} of {k}: challenges drawn on {} transcripts descending from the transcript supplied for it (expected 1)", mine.len()),
                replay.clone(),
            );
            return;
        }
        let req = required(&sts[i], &Parts::of(&proofs[i]));
        rep.count("data_items_checked", req.len() as u64);
        let missing = containment(&ev, mine[0], &req);
        if !missing.is_empty() {
            rep.violation(
                &format!("C04 batch-trace-missing {:?}", missing.iter().map(|m| strip(m)).collect::<std::collections::BTreeSet<_>>()),
                &format!("batch member {i}: not appended before the dependent challenge: {missing:?}"),
                replay.clone(),
            );
        }
        per_member.push(challenges_on(&ev, mine[0]));
    }
    // differential: perturb member j's context only
    let j = if big { k - 1 - (b / 24) % 3 } else { b % k };
    if big {
        rep.count("batch_traces_beyond_one_chunk", 1);
    }
    let mut ctxs2 = ctxs.clone();
    ctxs2[j].extra.push(vec![0x99]);
    let (ev2, forks2, ok2) = run(&ctxs2);
    let ids2 = challenge_ids(&ev2);
    rep.count("batch_context_perturbations", 1);
    for i in 0..k {
        let mine: Vec<u64> = ids2.iter().copied().filter(|x| descends(&ev2, *x, forks2[i])).collect();
        if mine.len() != 1 {
            continue;
        }
        let ch = challenges_on(&ev2, mine[0]);
        rep.count("challenge_pairs_compared", ch.len() as u64);
        if i == j {
            if ch.iter().zip(per_member[i].iter()).any(|(a, b)| a == b) {
                rep.violation("C04 batch-challenge-independent-of-context", &format!("batch member {i}: a challenge is unchanged although the transcript supplied for it changed"), replay.clone());
            }
        } else if ch != per_member[i] {
            rep.violation("C04 batch-challenge-depends-on-other-member", &format!("batch member {i}: challenges changed although only member {j}'s transcript changed"), replay.clone());
        }
    }
    if ok2 && action != VerifyAction::RecoverOnly {
        rep.violation("C04 accepted-under-other-context batch", &format!("batch accepted although member {j}'s transcript context was altered"), replay.clone());
    }
    rep.sample(&format!("{GROUP}-batch"), json!({"batch": k, "bits": n, "ext": ext, "events": ev.len()}));
}

/// Does transcript `x` descend from (or equal) transcript `anc` by Clone events?
fn descends(events: &[Event], x: u64, anc: u64) -> bool {
    let mut cur = x;
    loop {
        if cur == anc {
            return true;
        }
        match events.iter().find(|e| e.kind == Kind::Clone && e.id2 == cur) {
            Some(e) => cur = e.id,
            None => return false,
        }
    }
}
