// C17 — constructors accept exactly the documented parameter space (exhaustive over the stated finite space).

fn viol(rep: &mut Report, ctx: &Ctx, id: usize, sig: &str, what: String, descr: Value) {
    let leg = if <P as Gx>::IS_FM { "fm" } else { "ris" };
    rep.violation(sig, &what, json!({"tier": if ctx.thorough() {"thorough"} else {"quick"}, "seed": ctx.seed, "leg": leg, "case": id, "descr": descr}));
}

pub fn run(ctx: &Ctx, rep: &mut Report) {
    let is_fm = <P as Gx>::IS_FM;
    let mut id = 0usize;
    // ---- RangeParameters::init: bits 0..=130 x capacity 0..=130
    let real_cap_limit = if is_fm { 130 } else if ctx.thorough() { 128 } else { 32 };
    for bits in 0..=130usize {
        id += 1;
        if !ctx.mine(id) {
            continue;
        }
        for cap in 0..=130usize {
            let want = bits.is_power_of_two() && bits <= 64 && cap.is_power_of_two();
            if want && cap > real_cap_limit {
                continue; // building the real tables for the largest valid capacities is left to the thorough tier
            }
            let ext = 1 + (bits + cap) % 6;
            rep.count("parameter_constructions", 1);
            rep.distinct_extra += 1;
            let r = no_panic(|| RangeParameters::<P>::init(bits, cap, <P as Gx>::pedersen(ext)));
            let d = json!({"constructor": "RangeParameters::init", "bits": bits, "capacity": cap, "group": GROUP});
            match r {
                Err(p) => viol(rep, ctx, id, "C17 params-panic", format!("RangeParameters::init({bits}, {cap}) panicked: {p}"), d),
                Ok(r) => {
                    if r.is_ok() != want {
                        viol(rep, ctx, id, &format!("C17 params-domain ok={}", r.is_ok()), format!("RangeParameters::init(bits {bits}, capacity {cap}) returned {}, the documented domain says {}", if r.is_ok() { "Ok" } else { "Err" }, if want { "Ok" } else { "Err" }), d.clone());
                    }
                    if let Ok(p) = r {
                        rep.count("parameter_sets_built", 1);
                        let ok = p.bit_length() == bits && p.max_aggregation_factor() == cap && p.extension_degree() as usize == ext && p.gi_base_iter().count() == bits * cap && p.hi_base_iter().count() == bits * cap && p.g_bases().len() == ext;
                        if !ok {
                            viol(rep, ctx, id, "C17 params-adjusted", format!("RangeParameters::init({bits}, {cap}) succeeded but the accessors do not return what was requested (bits {}, capacity {}, {} G generators)", p.bit_length(), p.max_aggregation_factor(), p.gi_base_iter().count()), d);
                        }
                    }
                },
            }
        }
        rep.eval(&(GROUP, "params", bits));
    }
    // ---- ... and capacities beyond the swept square: party indices that need more than one byte, and their neighbours
    id += 1;
    if ctx.mine(id) {
        let big: &[usize] = if ctx.thorough() || is_fm { &[255, 256, 257, 300, 511, 512, 513, 1000, 1023, 1024, 1025, 2048, 4096, 65535] } else { &[255, 256, 257, 511, 512, 513, 1024, 1025, 65535] };
        for &cap in big {
            for bits in [1usize, 2] {
                let want = cap.is_power_of_two();
                if want && bits * cap > 4096 {
                    continue;
                }
                let ext = 1 + (bits + cap) % 6;
                rep.count("parameter_constructions", 1);
                rep.distinct_extra += 1;
                let d = json!({"constructor": "RangeParameters::init", "bits": bits, "capacity": cap, "group": GROUP});
                match no_panic(|| RangeParameters::<P>::init(bits, cap, <P as Gx>::pedersen(ext))) {
                    Err(p) => viol(rep, ctx, id, "C17 params-panic", format!("RangeParameters::init({bits}, {cap}) panicked: {p}"), d),
                    Ok(r) => {
                        if r.is_ok() != want {
                            viol(rep, ctx, id, &format!("C17 params-domain ok={} capacity>130", r.is_ok()), format!("RangeParameters::init(bits {bits}, capacity {cap}) returned {}, the documented domain says {}", if r.is_ok() { "Ok" } else { "Err" }, if want { "Ok" } else { "Err" }), d.clone());
                        }
                        if let Ok(p) = r {
                            rep.count("parameter_sets_built", 1);
                            if p.max_aggregation_factor() != cap || p.gi_base_iter().count() != bits * cap || p.hi_base_iter().count() != bits * cap {
                                viol(rep, ctx, id, "C17 params-adjusted", format!("RangeParameters::init({bits}, {cap}) succeeded but the accessors do not return what was requested"), d);
                            }
                        }
                    },
                }
            }
        }
        rep.eval(&(GROUP, "params-large"));
    }
    // ---- RangeStatement::init: counts 0..=17 x capacity {1,2,4,8,16} x promise count x seed
    for count in 0..=17usize {
        id += 1;
        if !ctx.mine(id) {
            continue;
        }
        let mut rng = ctx.rng(&format!("c17-st-{GROUP}"), id as u64);
        for &cap in &[1usize, 2, 4, 8, 16] {
          for &bits in &[4usize, 1, 64, 2] {
            if bits != 4 && cap > 4 {
                continue;
            }
            let prm = params(bits, cap, 1 + (count + cap) % 6);
            let mut pcs = vec![count, count + 1, 0];
            if count > 0 {
                pcs.push(count - 1);
            }
            pcs.dedup();
            for pc in pcs {
                for seeded in [false, true] {
                    // any group element is a commitment, the identity included
                    let commitments: Vec<P> = (0..count).map(|j| if (j + cap + pc) % 5 == 0 { P::identity() } else { <P as Gx>::random_point(&mut rng) }).collect();
                    let promises: Vec<Option<u64>> = (0..pc).map(|j| if j % 2 == 0 { None } else { Some(j as u64) }).collect();
                    let seed = if seeded { Some(if (count + cap + pc) % 3 == 0 { Scalar::ZERO } else { rand_scalar(&mut rng) }) } else { None };
                    let want = count.is_power_of_two() && pc == count && count <= cap && !(seeded && count > 1);
                    rep.count("statement_constructions", 1);
                    rep.distinct_extra += 1;
                    let d = json!({"constructor": "RangeStatement::init", "bits": bits, "commitments": count, "capacity": cap, "promises": pc, "seed": seeded, "group": GROUP});
                    let r = no_panic(|| RangeStatement::init(prm.clone(), commitments.clone(), promises.clone(), seed));
                    match r {
                        Err(p) => viol(rep, ctx, id, "C17 statement-panic", format!("RangeStatement::init panicked: {p}"), d),
                        Ok(r) => {
                            if r.is_ok() != want {
                                viol(
                                    rep,
                                    ctx,
                                    id,
                                    &format!("C17 statement-domain ok={} seed={seeded} count{}1 bits{}", r.is_ok(), if count > 1 { ">" } else { "<=" }, if bits == 1 { "=1" } else { ">1" }),
                                    format!("RangeStatement::init(bits {bits}, {count} commitments, capacity {cap}, {pc} promises, seed {seeded}) returned {}, the documented domain says {}", if r.is_ok() { "Ok" } else { "Err" }, if want { "Ok" } else { "Err" }),
                                    d.clone(),
                                );
                            }
                            if let Ok(s) = r {
                                let ok = s.commitments == commitments && s.minimum_value_promises == promises && s.seed_nonce == seed && s.commitments_compressed.len() == count && s.commitments_compressed.iter().zip(commitments.iter()).all(|(c, p)| c.as_fixed_bytes() == p.compress().as_fixed_bytes()) && s.generators.max_aggregation_factor() == cap;
                                if !ok {
                                    viol(rep, ctx, id, "C17 statement-adjusted", "RangeStatement::init succeeded but the statement does not hold what was passed in".into(), d);
                                }
                            }
                        },
                    }
                }
            }
          }
        }
        rep.eval(&(GROUP, "statement", count));
    }
    // the remaining constructors do not depend on the group: run them once (free-module leg)
    if !is_fm {
        return;
    }
    // ---- RangeWitness::init / CommitmentOpening: 0..=17 openings, blinding counts 0..=8 (+ counts around 2^8, 2^16)
    let big_counts = [255usize, 256, 257, 258, 261, 262, 263, 512, 513, 518, 65537, 65542];
    for nopen in 0..=17usize {
        id += 1;
        if !ctx.mine(id) {
            continue;
        }
        let mut shapes: Vec<Vec<usize>> = vec![];
        for c in 0..=8usize {
            shapes.push(vec![c; nopen]);
            // one opening with a different count at each position
            for pos in 0..nopen {
                for odd in [0usize, c + 1, if c > 0 { c - 1 } else { 2 }] {
                    if odd != c {
                        let mut s = vec![c; nopen];
                        s[pos] = odd;
                        shapes.push(s);
                    }
                }
            }
        }
        if nopen >= 1 && nopen <= 2 {
            for &c in &big_counts {
                shapes.push(vec![c; nopen]);
            }
        }
        for shape in shapes {
            let want = !shape.is_empty() && shape.iter().all(|c| *c == shape[0]) && (1..=6).contains(&shape[0]);
            rep.count("witness_constructions", 1);
            rep.distinct_extra += 1;
            let d = json!({"constructor": "RangeWitness::init", "blinding_counts": if shape.len() <= 4 { json!(shape) } else { json!({"openings": shape.len(), "first": shape[0], "distinct": shape.iter().collect::<std::collections::BTreeSet<_>>()}) }});
            let r = no_panic(|| {
                let openings: Vec<CommitmentOpening> = shape.iter().enumerate().map(|(j, c)| CommitmentOpening::new(j as u64, (0..*c).map(|i| if (i + j) % 3 == 2 { Scalar::ZERO } else { Scalar::from(7u64 + j as u64) }).collect())).collect();
                for (o, c) in openings.iter().zip(shape.iter()) {
                    let rl = o.r_len();
                    if rl.is_ok() != (*c > 0) || rl.unwrap_or(0) != *c {
                        return Err("r_len".to_string());
                    }
                }
                Ok(RangeWitness::init(openings))
            });
            match r {
                Err(p) => viol(rep, ctx, id, "C17 witness-panic", format!("RangeWitness::init panicked: {p}"), d),
                Ok(Err(_)) => viol(rep, ctx, id, "C17 opening-r_len", "CommitmentOpening::r_len does not report the number of blinding factors (error iff empty)".into(), d),
                Ok(Ok(r)) => {
                    if r.is_ok() != want {
                        viol(rep, ctx, id, &format!("C17 witness-domain ok={} count{}", r.is_ok(), if shape.first().copied().unwrap_or(0) > 8 { ">8" } else { "<=8" }), format!("RangeWitness::init with blinding counts {:?}.. returned {}, the documented domain says {}", &shape[..shape.len().min(4)], if r.is_ok() { "Ok" } else { "Err" }, if want { "Ok" } else { "Err" }), d.clone());
                    }
                    if let Ok(w) = r {
                        if w.openings.len() != shape.len() || w.extension_degree as usize != shape[0] {
                            viol(rep, ctx, id, "C17 witness-adjusted", format!("RangeWitness::init succeeded with extension degree {:?} for {} blinding factors", w.extension_degree, shape[0]), d);
                        }
                    }
                },
            }
        }
        rep.eval(&("witness", nopen));
    }
    // ---- ExtendedMask::assign, PedersenGens::commit: length 0..=8 x degree 1..=6
    id += 1;
    if ctx.mine(id) {
        let mut rng = ctx.rng("c17-mask", id as u64);
        for degree in 1..=6usize {
            let pc = <P as Gx>::pedersen(degree);
            for len in 0..=8usize {
                let bl: Vec<Scalar> = (0..len).map(|_| rand_scalar(&mut rng)).collect();
                rep.count("mask_and_commit_constructions", 2);
                rep.distinct_extra += 2;
                let d = json!({"degree": degree, "length": len});
                match no_panic(|| ExtendedMask::assign(ext_of(degree), bl.clone())) {
                    Err(p) => viol(rep, ctx, id, "C17 mask-panic", format!("ExtendedMask::assign panicked: {p}"), d.clone()),
                    Ok(r) => {
                        let want = len == degree;
                        if r.is_ok() != want {
                            viol(rep, ctx, id, &format!("C17 mask-domain ok={}", r.is_ok()), format!("ExtendedMask::assign(degree {degree}, {len} scalars) returned {}", if r.is_ok() { "Ok" } else { "Err" }), d.clone());
                        }
                        if let Ok(m) = r {
                            if m.blindings().ok() != Some(bl.clone()) {
                                viol(rep, ctx, id, "C17 mask-adjusted", "ExtendedMask does not return the scalars it was given".into(), d.clone());
                            }
                        }
                    },
                }
                let v = Scalar::from(rng.next_u64());
                match no_panic(|| pc.commit(&v, &bl)) {
                    Err(p) => viol(rep, ctx, id, "C17 commit-panic", format!("PedersenGens::commit panicked: {p}"), d.clone()),
                    Ok(r) => {
                        let want = len >= 1 && len <= degree;
                        if r.is_ok() != want {
                            viol(rep, ctx, id, &format!("C17 commit-domain ok={}", r.is_ok()), format!("commit with {len} blinding factors under degree {degree} returned {}", if r.is_ok() { "Ok" } else { "Err" }), d.clone());
                        }
                        if let Ok(c) = r {
                            let mut e = RefGroup::times(&pc.h_base, &v);
                            for k in 0..len {
                                e = RefGroup::plus(&e, &RefGroup::times(&pc.g_base_vec[k], &bl[k]));
                            }
                            if c != e {
                                viol(rep, ctx, id, "C17 commit-value", "commit does not return v*H + sum r_k*G_k".into(), d.clone());
                            }
                        }
                    },
                }
            }
        }
        // a generator set that holds more blinding generators than its declared degree (the fields are public):
        // the bound is the degree, not what happens to be held
        for degree in 1..=5usize {
            let mut pc = <P as Gx>::pedersen(6);
            pc.extension_degree = ext_of(degree);
            for len in 0..=7usize {
                let bl: Vec<Scalar> = (0..len).map(|_| rand_scalar(&mut rng)).collect();
                rep.count("mask_and_commit_constructions", 1);
                rep.distinct_extra += 1;
                let d = json!({"degree": degree, "generators_held": 6, "length": len});
                match no_panic(|| pc.commit(&Scalar::from(7u64), &bl)) {
                    Err(p) => viol(rep, ctx, id, "C17 commit-panic", format!("PedersenGens::commit panicked: {p}"), d.clone()),
                    Ok(r) => {
                        let want = len >= 1 && len <= degree;
                        if r.is_ok() != want {
                            viol(rep, ctx, id, &format!("C17 commit-domain ok={} spare-generators", r.is_ok()), format!("commit with {len} blinding factors under declared degree {degree} (6 generators held) returned {}", if r.is_ok() { "Ok" } else { "Err" }), d.clone());
                        }
                    },
                }
            }
        }
        rep.eval(&("mask-commit", 0));
    }
    // ---- ExtensionDegree conversions: all u8, usize in 0..=300 and around powers of two
    id += 1;
    if ctx.mine(id) {
        for v in 0..=255u8 {
            let r = no_panic(|| ExtensionDegree::try_from(v));
            rep.count("degree_conversions", 1);
            rep.distinct_extra += 1;
            match r {
                Err(p) => viol(rep, ctx, id, "C17 degree-panic", format!("ExtensionDegree::try_from({v}u8) panicked: {p}"), json!({"u8": v})),
                Ok(r) => {
                    if r.is_ok() != (1..=6).contains(&v) || r.as_ref().map(|d| *d as u8 != v).unwrap_or(false) {
                        viol(rep, ctx, id, "C17 degree-domain u8", format!("ExtensionDegree::try_from({v}u8) = {r:?}"), json!({"u8": v}));
                    }
                },
            }
        }
        let mut us: Vec<usize> = (0..=300).collect();
        for base in [1usize << 8, 1 << 16, 1 << 32, 1 << 48, usize::MAX - 7] {
            for k in 0..=7usize {
                us.push(base.wrapping_add(k));
                us.push(base.wrapping_sub(k));
            }
        }
        us.extend([usize::MAX, usize::MAX - 1, (usize::MAX >> 1) + 1, (usize::MAX >> 1) + 3]);
        for v in us {
            let r = no_panic(|| ExtensionDegree::try_from(v));
            rep.count("degree_conversions", 1);
            rep.distinct_extra += 1;
            match r {
                Err(p) => viol(rep, ctx, id, "C17 degree-panic", format!("ExtensionDegree::try_from({v}usize) panicked: {p}"), json!({"usize": v})),
                Ok(r) => {
                    if r.is_ok() != (1..=6).contains(&v) || r.as_ref().map(|d| *d as usize != v).unwrap_or(false) {
                        viol(rep, ctx, id, &format!("C17 degree-domain usize{}255", if v > 255 { ">" } else { "<=" }), format!("ExtensionDegree::try_from({v}usize) = {r:?}"), json!({"usize": v}));
                    }
                },
            }
        }
        rep.eval(&("degree", 0));
    }
    rep.sample(GROUP, json!({"spaces": ["bits 0..=130 x capacity 0..=130", "commitments 0..=17 x capacity {1,2,4,8,16} x promise counts x seed", "openings 0..=17 x blinding counts 0..=8 (+ 255..263, 512.., 65537..)", "mask/commit length 0..=8 x degree", "all u8, usize 0..=300 and around 2^8, 2^16, 2^32, 2^48, MAX"]}));
}
