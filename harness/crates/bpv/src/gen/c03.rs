// C03 — batch verification accepts iff every member verifies, at any size and order; refusals.

pub struct Member {
    pub st: Stmt,
    pub proof: Proof,
    pub ctx: Context,
    pub valid: bool,
    pub why: String,
    pub mask: Option<Vec<Scalar>>,
    pub cfg: Cfg,
}

/// A pool of valid members sharing (bits, extension degree) and `bad` invalid variants of some of them
pub fn make_pool(n: usize, ext: usize, count: usize, rng: &mut impl RngCore) -> (Vec<Member>, Vec<Member>) {
    let mut good = vec![];
    let mut bad = vec![];
    for i in 0..count {
        let m = [1usize, 1, 2, 4, 1, 2][i % 6];
        let m = if n * m > 64 { 1 } else { m };
        let cap = (m << (i % 3)).min(16);
        let cfg = Cfg::new(n, m, cap, ext);
        let case = Case::random(cfg, VALUE_CLASSES[i % 6], PROMISE_CLASSES[i % 5], i % 2 == 0, rng);
        let mut prng = FaultRng::new(RngKind::Healthy(rng.next_u64()));
        let Ok(proof) = case.prove(&mut prng) else { continue };
        let mask = if case.seed.is_some() { Some(case.blindings[0].clone()) } else { None };
        // invalid variants
        if cfg.mn() > 1 {
            let parts = Parts::of(&proof);
            let kind = i % 7;
            let mut p = parts.clone();
            let mut ctx = case.ctx.clone();
            let mut promises = case.promises.clone();
            let why = match kind {
                0 => {
                    p.r1 = (Scalar::from_canonical_bytes(p.r1).unwrap() + Scalar::ONE).to_bytes();
                    "r1 + 1"
                },
                1 => {
                    let k = i % p.d1.len();
                    p.d1[k] = (Scalar::from_canonical_bytes(p.d1[k]).unwrap() + Scalar::ONE).to_bytes();
                    "d1[k] + 1"
                },
                2 => {
                    ctx.extra.push(vec![7]);
                    "member's transcript has another context"
                },
                3 => {
                    let j = i % cfg.m;
                    let cur = promises[j].unwrap_or(0);
                    promises[j] = Some(if cur < cfg.max_value() { cur + 1 } else { cur - 1 });
                    "one promise altered"
                },
                4 => {
                    let j = i % p.lr.len();
                    p.lr[j].0 = enc(&<P as Gx>::random_point(rng));
                    "one L replaced"
                },
                5 => {
                    // same elements, re-encoded under another extension degree (statement keeps its degree)
                    if ext < 6 {
                        p.d1.push(rand_scalar(rng).to_bytes());
                        p.ext_byte += 1;
                    } else {
                        p.d1.pop();
                        p.ext_byte -= 1;
                    }
                    "proof re-encoded with another extension degree"
                },
                _ => {
                    // half of a cancelling pair: +delta here, -delta on the next such member (fixed delta = 1)
                    let k = 0;
                    let delta = if bad.iter().filter(|b: &&Member| b.why.starts_with("cancelling")).count() % 2 == 0 { Scalar::ONE } else { -Scalar::ONE };
                    p.d1[k] = (Scalar::from_canonical_bytes(p.d1[k]).unwrap() + delta).to_bytes();
                    "cancelling pair member (d1[0] +/- 1)"
                },
            };
            if let Ok(bp) = p.to_proof() {
                let st = case.statement_with(&case.params(), &promises, case.seed);
                bad.push(Member { st, proof: bp, ctx, valid: false, why: why.to_string(), mask: None, cfg });
            }
        }
        good.push(Member { st: case.statement(), proof, ctx: case.ctx.clone(), valid: true, why: "honest".into(), mask, cfg });
    }
    (good, bad)
}

fn sizes(thorough: bool, is_fm: bool) -> Vec<usize> {
    let mut v = vec![1usize, 2, 3, 4, 5, 6, 17, 255, 256, 257, 300, 511, 512, 513];
    if thorough {
        v.extend([64, 128, 254, 258, 600, 768, 769]);
        if is_fm {
            v.extend([1024, 1025, 1300]);
        }
    }
    v
}

pub fn run(ctx: &Ctx, rep: &mut Report) {
    let is_fm = <P as Gx>::IS_FM;
    let leg = if is_fm { "fm" } else { "ris" };
    let patterns = if ctx.thorough() { 96 } else { 8 };
    let mut id = 0usize;
    for &k in &sizes(ctx.thorough(), is_fm) {
        for pat in 0..patterns {
            id += 1;
            if !ctx.mine(id) {
                continue;
            }
            batch_case(ctx, rep, id, k, pat, leg);
        }
    }
    // refusals
    let nref = if ctx.thorough() { 96 } else { 6 };
    for r in 0..nref {
        id += 1;
        if !ctx.mine(id) {
            continue;
        }
        refusals(ctx, rep, id, r, leg);
    }
}

fn batch_case(ctx: &Ctx, rep: &mut Report, id: usize, k: usize, pat: usize, leg: &str) {
    <P as Gx>::case_reset();
    clear_params_cache();
    let mut rng = ctx.rng(&format!("c03-{GROUP}"), id as u64);
    let n = [2usize, 4, 8, 2, 16, 1][(pat + k) % 6];
    let ext = 1 + ((pat + k) % 6);
    let (good, bad) = make_pool(n, ext, 14, &mut rng);
    if good.is_empty() || bad.is_empty() {
        rep.note(format!("C03: empty pool for bits={n} ext={ext}"));
        return;
    }
    // positions of invalid members
    let nbad = match pat % 4 {
        0 => 0,
        1 => 1,
        2 => 2,
        _ => (k / 3).clamp(1, 7),
    };
    let candidates = [0usize, 1, k / 2, 254, 255, 256, 257, 511, 512, k.saturating_sub(1), (rng.next_u64() as usize) % k];
    let mut bad_pos: Vec<usize> = vec![];
    let mut c = pat / 4 + k % 3;
    while bad_pos.len() < nbad.min(k) {
        let p = candidates[c % candidates.len()];
        c += 1;
        let p = if p < k { p } else { (rng.next_u64() as usize) % k };
        if !bad_pos.contains(&p) {
            bad_pos.push(p);
        }
        if c > 200 {
            break;
        }
    }
    // prefer late positions when the batch is longer than a chunk: that is where chunking bugs hide
    if k > 256 && !bad_pos.is_empty() && pat % 2 == 1 {
        bad_pos[0] = 256 + (rng.next_u64() as usize) % (k - 256);
    }
    let cancel: Vec<&Member> = bad.iter().filter(|b| b.why.starts_with("cancelling")).collect();
    let plant_pair = pat % 4 == 2 && cancel.len() >= 2 && bad_pos.len() >= 2;
    if plant_pair {
        rep.count("cancelling_pairs_planted", 1);
    }
    let members: Vec<&Member> = (0..k)
        .map(|i| {
            if plant_pair && bad_pos[0] == i {
                cancel[0]
            } else if plant_pair && bad_pos[1] == i {
                cancel[1]
            } else if bad_pos.contains(&i) {
                &bad[(i + pat) % bad.len()]
            } else {
                &good[(i * 7 + pat + (rng.next_u32() as usize % 3)) % good.len()]
            }
        })
        .collect();
    let ts: Vec<Transcript> = members.iter().map(|m| m.ctx.transcript()).collect();
    let sts: Vec<Stmt> = members.iter().map(|m| m.st.clone()).collect();
    let proofs: Vec<Proof> = members.iter().map(|m| m.proof.clone()).collect();
    // singleton verdicts (library and reference) of the pool members used
    let mut single: HashMap<usize, bool> = HashMap::new();
    for m in members.iter() {
        let key = (*m) as *const Member as usize;
        if single.contains_key(&key) {
            continue;
        }
        let rst = ref_statement_of(&m.st.generators, m.st.commitments.len(), &m.st.commitments, &m.st.minimum_value_promises);
        let (lv, rv) = verdict_pair(&m.ctx.transcript(), &m.st, &m.proof, &rst, &Parts::of(&m.proof), VerifyAction::VerifyOnly);
        let lv = lv.unwrap_or(false);
        rep.count("singleton_verdicts", 1);
        if lv != rv || lv != m.valid {
            rep.violation(
                &format!("C03 singleton-verdict {GROUP} [{}]", m.why),
                &format!("pool member `{}`: library alone says {lv}, reference says {rv}, expected by construction {}", m.why, m.valid),
                json!({"tier": if ctx.thorough() {"thorough"} else {"quick"}, "seed": ctx.seed, "leg": leg, "case": id}),
            );
        }
        single.insert(key, lv);
    }
    let all_valid = members.iter().all(|m| single[&((*m) as *const Member as usize)]);
    let first_bad = members.iter().position(|m| !single[&((*m) as *const Member as usize)]);
    let descr = json!({"group": GROUP, "size": k, "bits": n, "ext": ext, "invalid_positions": bad_pos, "invalid_kinds": bad_pos.iter().map(|p| members[*p].why.clone()).collect::<Vec<_>>(),
        "aggregations": members.iter().take(12).map(|m| m.cfg.m).collect::<Vec<_>>(), "capacities": members.iter().take(12).map(|m| m.cfg.cap).collect::<Vec<_>>()});
    let replay = json!({"tier": if ctx.thorough() {"thorough"} else {"quick"}, "seed": ctx.seed, "leg": leg, "case": id, "descr": descr});
    let pos_class = match first_bad {
        None => "none".to_string(),
        Some(p) if p >= 256 => "position>=256".to_string(),
        Some(_) => "position<256".to_string(),
    };
    for action in [VerifyAction::VerifyOnly, VerifyAction::RecoverAndVerify] {
        rep.eval(&(GROUP, k, pat, bad_pos.clone(), action_name(action)));
        rep.count("batches", 1);
        rep.count("batch_members_verified", k as u64);
        rep.max("max_batch_size", k as u64);
        if k > 256 {
            rep.count("batches_beyond_one_chunk", 1);
        }
        if bad_pos.iter().any(|p| *p >= 256) {
            rep.count("batches_with_invalid_member_beyond_256", 1);
        }
        let res = no_panic(|| verify_many(&ts, &sts, &proofs, action));
        match res {
            Err(p) => rep.violation(&format!("C03 batch-panic {GROUP}"), &format!("verify_batch panicked: {p}"), replay.clone()),
            Ok(Ok(masks)) => {
                if !all_valid {
                    rep.violation(
                        &format!("C03 batch-accepts-invalid-member {pos_class}"),
                        &format!("a batch of {k} with invalid member(s) at {:?} ({}) was accepted ({})", bad_pos, members[first_bad.unwrap()].why, action_name(action)),
                        replay.clone(),
                    );
                    continue;
                }
                if masks.len() != k {
                    rep.violation(
                        &format!("C03 result-length size{}256", if k > 256 { ">" } else { "<=" }),
                        &format!("verify_batch returned {} results for {k} members", masks.len()),
                        replay.clone(),
                    );
                    continue;
                }
                // alignment of results
                for (i, (m, got)) in members.iter().zip(masks.iter()).enumerate() {
                    let want = if action == VerifyAction::VerifyOnly { None } else { m.mask.clone() };
                    rep.count("result_slots_checked", 1);
                    if mask_vec(got) != want {
                        rep.violation(
                            &format!("C03 result-misaligned {}", action_name(action)),
                            &format!("result {i} of {k} does not belong to member {i} (expected {} mask)", if want.is_some() { "its" } else { "no" }),
                            replay.clone(),
                        );
                        break;
                    }
                }
            },
            Ok(Err(e)) => {
                if all_valid {
                    rep.violation(
                        &format!("C03 batch-rejects-valid size{}256", if k > 256 { ">" } else { "<=" }),
                        &format!("a batch of {k} individually valid members was rejected: {e}"),
                        replay.clone(),
                    );
                }
            },
        }
    }
    // an adaptive cancelling pair (free module only, where the batch factors are observable): two members get
    // offsetting defects computed from the factors the verifier used on the previous run
    if <P as Gx>::IS_FM && k >= 2 && all_valid && pat % 2 == 0 {
        let i = 0usize;
        let j = 1 + (pat / 2) % (k - 1).min(200);
        if members[i].cfg.mn() > 1 && members[j].cfg.mn() > 1 && j / 256 == i / 256 {
            let bump = |p: &Proof, d: &Scalar| -> Proof {
                let mut parts = Parts::of(p);
                parts.d1[0] = (Scalar::from_canonical_bytes(parts.d1[0]).unwrap() + d).to_bytes();
                parts.to_proof().unwrap()
            };
            let bs: Vec<P> = [i, j].iter().filter_map(|x| Parts::of(&proofs[*x]).to_ref().map(|r| r.b)).collect();
            let di = rand_scalar(&mut rng);
            let mut dj = -di;
            for round in 0..3 {
                let mut pr = proofs.clone();
                pr[i] = bump(&proofs[i], &di);
                pr[j] = bump(&proofs[j], &dj);
                <P as Gx>::probe_arm();
                let r = no_panic(|| verify_many(&ts, &sts, &pr, if pat % 4 == 0 { VerifyAction::VerifyOnly } else { VerifyAction::RecoverAndVerify }));
                let w = <P as Gx>::probe_take_weights(&bs);
                rep.count("adaptive_cancelling_rounds", 1);
                if let Ok(Ok(_)) = r {
                    rep.violation(
                        &format!("C03 batch-accepts-invalid-member adaptive-pair round{}", if round == 0 { "0" } else { ">0" }),
                        &format!("a batch of {k} whose members {i} and {j} carry offsetting defects (computed from the factors observed on the previous run) was accepted although each is invalid alone"),
                        replay.clone(),
                    );
                    break;
                }
                match w {
                    Some(w) if w.len() == 2 && w[1] != Scalar::ZERO => dj = -di * w[0] * w[1].invert(),
                    _ => break,
                }
            }
        }
    }
    // RecoverOnly on an all-valid batch returns the same masks
    if all_valid {
        if let Ok(Ok(masks)) = no_panic(|| verify_many(&ts, &sts, &proofs, VerifyAction::RecoverOnly)) {
            rep.count("recover_only_batches", 1);
            let ok = masks.len() == k && members.iter().zip(masks.iter()).all(|(m, g)| mask_vec(g) == m.mask);
            if !ok {
                rep.violation("C03 result-misaligned RecoverOnly", &format!("RecoverOnly results of a batch of {k} are not aligned with its members"), replay.clone());
            }
        }
    }
    rep.sample(&format!("{GROUP}-size{}", if k > 256 { ">256" } else { "<=256" }), descr);
}

fn refusals(ctx: &Ctx, rep: &mut Report, id: usize, r: usize, leg: &str) {
    <P as Gx>::case_reset();
    clear_params_cache();
    let mut rng = ctx.rng(&format!("c03-ref-{GROUP}"), id as u64);
    let n = [4usize, 2, 8][r % 3];
    let ext = 1 + (r % 5); // leaves room for ext + 1
    let (good, _bad) = make_pool(n, ext, 8, &mut rng);
    let (other_n, _) = make_pool(n * 2, ext, 4, &mut rng);
    let (other_ext, _) = make_pool(n, ext + 1, 4, &mut rng);
    if good.len() < 4 || other_n.is_empty() || other_ext.is_empty() {
        return;
    }
    let k = [3usize, 258, 40, 300, 2, 513][r % 6];
    let replay = |what: &str| json!({"tier": if ctx.thorough() {"thorough"} else {"quick"}, "seed": ctx.seed, "leg": leg, "case": id, "descr": {"refusal": what, "size": k, "bits": n, "ext": ext}});
    let base: Vec<&Member> = (0..k).map(|i| &good[i % good.len()]).collect();
    let build = |ms: &[&Member]| -> (Vec<Transcript>, Vec<Stmt>, Vec<Proof>) {
        (ms.iter().map(|m| m.ctx.transcript()).collect(), ms.iter().map(|m| m.st.clone()).collect(), ms.iter().map(|m| m.proof.clone()).collect())
    };
    let expect_err = |rep: &mut Report, what: &str, ts: Vec<Transcript>, sts: Vec<Stmt>, proofs: Vec<Proof>| {
        rep.eval(&(GROUP, "refusal", what.to_string(), k));
        rep.count("refusal_cases", 1);
        for action in ACTIONS {
            match no_panic(|| verify_many(&ts, &sts, &proofs, action)) {
                Err(p) => rep.violation(&format!("C03 refusal-panic [{}]", class3(what)), &format!("verify_batch panicked on `{what}`: {p}"), replay(what)),
                Ok(Ok(r)) => rep.violation(
                    &format!("C03 not-refused [{}] {}", class3(what), action_name(action)),
                    &format!("`{what}` was not refused: Ok with {} results ({})", r.len(), action_name(action)),
                    replay(what),
                ),
                Ok(Err(_)) => {},
            }
        }
    };
    // empty inputs
    {
        let (ts, sts, proofs) = build(&base);
        expect_err(rep, "empty batch", vec![], vec![], vec![]);
        expect_err(rep, "no transcripts", vec![], sts.clone(), proofs.clone());
        expect_err(rep, "no statements", ts.clone(), vec![], proofs.clone());
        expect_err(rep, "no proofs", ts.clone(), sts.clone(), vec![]);
        // pairwise length mismatches
        expect_err(rep, "one transcript missing", ts[..k - 1].to_vec(), sts.clone(), proofs.clone());
        expect_err(rep, "one statement missing", ts.clone(), sts[..k - 1].to_vec(), proofs.clone());
        expect_err(rep, "one proof missing", ts.clone(), sts.clone(), proofs[..k - 1].to_vec());
        let mut t2 = ts.clone();
        t2.push(ts[0].clone());
        expect_err(rep, "one transcript too many", t2, sts.clone(), proofs.clone());
        let mut p2 = proofs.clone();
        p2.push(proofs[0].clone());
        expect_err(rep, "one proof too many", ts.clone(), sts.clone(), p2);
        let mut s2 = sts.clone();
        s2.push(sts[0].clone());
        expect_err(rep, "one statement too many", ts.clone(), s2, proofs.clone());
    }
    // members that disagree, at several positions (each alone is a perfectly valid triple)
    let mut positions = vec![1usize.min(k - 1), k - 1, k / 2];
    for p in [255usize, 256, 257] {
        if p < k {
            positions.push(p);
        }
    }
    positions.push(0);
    positions.dedup();
    for &pos in &positions {
        let mut ms = base.clone();
        ms[pos] = &other_n[pos % other_n.len()];
        let (ts, sts, proofs) = build(&ms);
        expect_err(rep, &format!("member {pos} has another bit length"), ts, sts, proofs);
        let mut ms = base.clone();
        ms[pos] = &other_ext[pos % other_ext.len()];
        let (ts, sts, proofs) = build(&ms);
        expect_err(rep, &format!("member {pos} has another extension degree"), ts, sts, proofs);
        // different H / G_k: re-prove a member under altered Pedersen generators so that it is valid alone
        for which in 0..2 {
            let src = base[pos];
            let mut pc = src.st.generators.pc_gens().clone();
            if which == 0 {
                pc.h_base = <P as Gx>::random_point(&mut rng);
                pc.h_base_compressed = pc.h_base.compress();
            } else {
                let kk = pos % ext;
                pc.g_base_vec[kk] = <P as Gx>::random_point(&mut rng);
                pc.g_base_compressed_vec[kk] = pc.g_base_vec[kk].compress();
            }
            let prm = RangeParameters::init(n, src.cfg.cap, pc).expect("params");
            let m = src.cfg.m;
            let values: Vec<u64> = (0..m).map(|_| rng.next_u64() % (1 << n)).collect();
            let bl: Vec<Vec<Scalar>> = (0..m).map(|_| (0..ext).map(|_| rand_scalar(&mut rng)).collect()).collect();
            let cs: Vec<P> = (0..m).map(|j| commit(prm.pc_gens(), values[j], &bl[j])).collect();
            let st = RangeStatement::init(prm, cs, vec![None; m], None).expect("statement");
            let w = RangeWitness::init((0..m).map(|j| CommitmentOpening::new(values[j], bl[j].clone())).collect()).expect("witness");
            let mut prng = FaultRng::new(RngKind::Healthy(rng.next_u64()));
            let Ok(proof) = RangeProof::prove_with_rng(&mut src.ctx.transcript(), &st, &w, &mut prng) else { continue };
            let alone = verify_one(&src.ctx.transcript(), &st, &proof, VerifyAction::VerifyOnly).is_ok();
            if !alone {
                rep.note("C03: member with altered generators does not verify alone (see C01)".into());
                continue;
            }
            let odd = Member { st, proof, ctx: src.ctx.clone(), valid: true, why: "other gens".into(), mask: None, cfg: src.cfg };
            let mut ms = base.clone();
            ms[pos] = &odd;
            let (ts, sts, proofs) = build(&ms);
            expect_err(rep, &format!("member {pos} has another {}", if which == 0 { "H" } else { "G_k" }), ts, sts, proofs);
        }
    }
    // different vector generators (only constructible over the free-module group, where generators are harness data)
    rep.count("refusal_rounds", 1);
}

fn class3(what: &str) -> String {
    let s: String = what.chars().filter(|c| !c.is_ascii_digit()).collect();
    s.replace("  ", " ")
}
