pub mod c01 {
    #[allow(unused_imports)]
    use super::*;
    include!("c01.rs");
}
pub mod c02 {
    #[allow(unused_imports)]
    use super::*;
    include!("c02.rs");
}
pub mod c03 {
    #[allow(unused_imports)]
    use super::*;
    include!("c03.rs");
}
pub mod c04 {
    #[allow(unused_imports)]
    use super::*;
    include!("c04.rs");
}
pub mod c05 {
    #[allow(unused_imports)]
    use super::*;
    include!("c05.rs");
}
pub mod c06 {
    #[allow(unused_imports)]
    use super::*;
    include!("c06.rs");
}
pub mod c07 {
    #[allow(unused_imports)]
    use super::*;
    include!("c07.rs");
}
pub mod c08 {
    #[allow(unused_imports)]
    use super::*;
    include!("c08.rs");
}
pub mod c09 {
    #[allow(unused_imports)]
    use super::*;
    include!("c09.rs");
}
pub mod c10 {
    #[allow(unused_imports)]
    use super::*;
    include!("c10.rs");
}
pub mod c12 {
    #[allow(unused_imports)]
    use super::*;
    include!("c12.rs");
}
pub mod c14 {
    #[allow(unused_imports)]
    use super::*;
    include!("c14.rs");
}
pub mod c15 {
    #[allow(unused_imports)]
    use super::*;
    include!("c15.rs");
}
pub mod c17 {
    #[allow(unused_imports)]
    use super::*;
    include!("c17.rs");
}
pub mod c16 {
    #[allow(unused_imports)]
    use super::*;
    include!("c16.rs");
}
pub mod c18 {
    #[allow(unused_imports)]
    use super::*;
    include!("c18.rs");
}
