// C18 (generic part) — verification and proving are pure functions of their arguments: a probe call gives the same
// result whatever calls preceded it (on the same thread, on a fresh thread, in a virgin process).

use digest::Digest as _;

/// Seeds that agree on their low 64 bits (and on their top bytes): anything that identifies a seed by a fingerprint
/// of part of it confuses them
pub fn structured_seed(tag: u64) -> Scalar {
    Scalar::from(0x5EED_5EED_5EED_5EEDu64) + Scalar::from(1u64 << 32) * Scalar::from(1u64 << 32) * Scalar::from(1 + tag % 1000)
}

/// Parameter sets whose precomputed tables are large (bits x capacity >= 256): the ones an implementation would be
/// tempted to cache or share process-wide
pub const LARGE: [(usize, usize); 4] = [(64, 4), (32, 8), (16, 16), (64, 8)];

/// Parameter objects a history keeps alive across its operations and across the probes that follow it
static POOL: std::sync::Mutex<Vec<Option<Params>>> = std::sync::Mutex::new(Vec::new());

pub fn pool_clear() {
    POOL.lock().unwrap_or_else(|e| e.into_inner()).clear();
}

/// One step of a parameter-churn history: construct a large parameter set into a slot (dropping what was there),
/// or drop a slot
pub fn churn_op(op: usize) -> String {
    let mut pool = POOL.lock().unwrap_or_else(|e| e.into_inner());
    if pool.len() < 3 {
        pool.resize_with(3, || None);
    }
    let slot = op % 3;
    let (n, cap) = LARGE[(op / 3) % LARGE.len()];
    match (op / 12) % 3 {
        0 | 1 => {
            let ext = 1 + (op / 36) % 6;
            // construct first, then release the previous occupant (both alive for a moment)
            let fresh = params_uncached(n, cap, ext);
            pool[slot] = Some(fresh);
            format!("construct {n}x{cap} parameters into slot {slot}")
        },
        _ => {
            pool[slot] = None;
            format!("drop slot {slot}")
        },
    }
}

/// The part of a probe that works on freshly constructed large parameter sets (aggregation 2)
fn probe_large(pid: usize, rng: &mut rand_chacha::ChaCha12Rng, h: &mut sha3::Sha3_256) {
    for (i, (n, cap)) in LARGE.iter().copied().enumerate() {
        let ext = 1 + (pid + i) % 6;
        let prm = params_uncached(n, cap, ext);
        let m = [2usize, 1, 4][(pid + i) % 3].min(cap);
        let case = Case::random(Cfg::new(n, m, cap, ext), VALUE_CLASSES[(pid + i) % 6], PROMISE_CLASSES[(pid + i) % 5], m == 1, rng);
        let st = case.statement_with(&prm, &case.promises, case.seed);
        let mut prng = FaultRng::new(RngKind::Healthy(7000 + pid as u64 + i as u64));
        match RangeProof::prove_with_rng(&mut case.transcript(), &st, &case.witness(), &mut prng) {
            Ok(p) => {
                h.update(b"large-proof");
                h.update(p.to_bytes());
                match verify_one(&case.transcript(), &st, &p, VerifyAction::RecoverAndVerify) {
                    Ok(mk) => {
                        h.update(b"ok");
                        if let Some(v) = mask_vec(&mk) {
                            for x in v {
                                h.update(x.as_bytes());
                            }
                        }
                    },
                    Err(e) => {
                        h.update(b"err");
                        h.update(e.to_string().as_bytes());
                    },
                }
            },
            Err(e) => {
                h.update(b"large-prove-err");
                h.update(e.to_string().as_bytes());
            },
        }
        // the table itself, probed through its public operation
        let len = 2 * n * cap;
        let scal: Vec<Scalar> = (0..len).map(|j| if j % 97 == (pid + i) % 97 { Scalar::from((j + 2) as u64) } else { Scalar::ZERO }).collect();
        use curve25519_dalek::traits::VartimePrecomputedMultiscalarMul as _;
        h.update(enc(&prm.precomp().vartime_multiscalar_mul(scal.iter())));
    }
}

/// Deterministic probe: proves and verifies fixed instances and digests every result bit
pub fn probe(pid: usize, seed: u64) -> String {
    <P as Gx>::case_reset();
    let mut h = sha3::Sha3_256::new();
    let mut sm = SplitMix64(seed ^ (pid as u64).wrapping_mul(0x9E37_79B9_7F4A_7C15));
    let mut s = [0u8; 32];
    for c in s.chunks_mut(8) {
        c.copy_from_slice(&sm.next().to_le_bytes());
    }
    let mut rng = <rand_chacha::ChaCha12Rng as rand_core::SeedableRng>::from_seed(s);
    let cfgs = [Cfg::new(2, 1, 1, 1), Cfg::new(4, 2, 2, 3), Cfg::new(8, 1, 2, 6), Cfg::new(2, 4, 4, 2), Cfg::new(16, 1, 1, 2), Cfg::new(1, 2, 2, 4)];
    let mut cases = vec![];
    let mut proofs = vec![];
    for k in 0..3 {
        let cfg = cfgs[(pid + k) % cfgs.len()];
        let mut case = Case::random(cfg, VALUE_CLASSES[(pid + k) % 6], PROMISE_CLASSES[(pid + k) % 5], true, &mut rng);
        if case.seed.is_some() {
            case.seed = Some(structured_seed(500 + pid as u64 * 3 + k as u64));
        }
        let mut prng = FaultRng::new(RngKind::Healthy(1000 + pid as u64 + k as u64));
        match case.prove(&mut prng) {
            Ok(p) => {
                h.update(b"proof");
                h.update(p.to_bytes());
                for action in ACTIONS {
                    match verify_one(&case.transcript(), &case.statement(), &p, action) {
                        Ok(m) => {
                            h.update(b"ok");
                            if let Some(v) = mask_vec(&m) {
                                for x in v {
                                    h.update(x.as_bytes());
                                }
                            }
                        },
                        Err(e) => {
                            h.update(b"err");
                            h.update(e.to_string().as_bytes());
                        },
                    }
                }
                // a tampered copy must keep failing the same way
                if cfg.mn() > 1 {
                    let mut parts = Parts::of(&p);
                    parts.s1 = (Scalar::from_canonical_bytes(parts.s1).unwrap() + Scalar::ONE).to_bytes();
                    let bad = parts.to_proof().unwrap();
                    match verify_one(&case.transcript(), &case.statement(), &bad, VerifyAction::RecoverAndVerify) {
                        Ok(_) => h.update(b"bad-ok"),
                        Err(e) => {
                            h.update(b"bad-err");
                            h.update(e.to_string().as_bytes());
                        },
                    }
                }
                proofs.push(p);
                cases.push(case);
            },
            Err(e) => {
                h.update(b"prove-err");
                h.update(e.to_string().as_bytes());
            },
        }
    }
    if pid >= 100 {
        probe_large(pid, &mut rng, &mut h);
    }
    // generator encodings
    let prm = params_uncached(cfgs[pid % cfgs.len()].n, 2, 1 + pid % 6);
    for g in prm.gi_base_iter().chain(prm.hi_base_iter()).chain(prm.g_bases().iter()) {
        h.update(enc(g));
    }
    hex(&h.finalize())
}

/// One step of a call history; returns a short name (the result is deliberately ignored)
pub fn history_op(op: usize, rng: &mut impl RngCore) -> &'static str {
    let n = [2usize, 4, 8][op % 3];
    let ext = 1 + (op / 3) % 6;
    let mk = |m: usize, rng: &mut dyn RngCore| -> Option<(Case, Proof)> {
        let mut r = rng;
        let mut case = Case::random(Cfg::new(n, m, m, ext), VALUE_CLASSES[op % 6], PROMISE_CLASSES[op % 5], m == 1, &mut r);
        if case.seed.is_some() {
            case.seed = Some(structured_seed(r.next_u64() % 400));
        }
        let mut prng = FaultRng::new(RngKind::Healthy(r.next_u64()));
        let p = case.prove(&mut prng).ok()?;
        Some((case, p))
    };
    match op % 12 {
        0 => {
            let _ = mk(1, rng);
            "prove"
        },
        1 => {
            if let Some((c, p)) = mk(2, rng) {
                let _ = verify_one(&c.transcript(), &c.statement(), &p, VerifyAction::VerifyOnly);
            }
            "prove+verify"
        },
        2 => {
            // fails at the final check
            if let Some((c, p)) = mk(2, rng) {
                let mut parts = Parts::of(&p);
                parts.r1 = (Scalar::from_canonical_bytes(parts.r1).unwrap() + Scalar::ONE).to_bytes();
                let _ = verify_one(&c.transcript(), &c.statement(), &parts.to_proof().unwrap(), VerifyAction::RecoverAndVerify);
            }
            "verify fails at the final check"
        },
        3 | 4 => {
            // a batch that fails in the middle: member >= 1 has an undecodable point / a wrong round count,
            // after earlier members have already been processed
            let (Some(a), Some(b), Some(c)) = (mk(1, rng), mk(2, rng), mk(1, rng)) else { return "skipped" };
            let mut parts = Parts::of(&b.1);
            if op % 12 == 3 {
                let j = op % parts.lr.len();
                parts.lr[j].1 = <P as Gx>::undecodable();
            } else {
                parts.lr.pop();
            }
            let Ok(bad) = parts.to_proof() else { return "skipped" };
            let ts = [a.0.transcript(), b.0.transcript(), c.0.transcript()];
            let sts = [a.0.statement(), b.0.statement(), c.0.statement()];
            let _ = verify_many(&ts, &sts, &[a.1.clone(), bad, c.1.clone()], ACTIONS[op % 2]);
            if op % 12 == 3 { "batch fails mid-way on an undecodable point" } else { "batch fails mid-way on a round-count mismatch" }
        },
        5 => {
            // refused by the consistency check
            let (Some(a), Some(b)) = (mk(1, rng), mk(2, rng)) else { return "skipped" };
            let other = Case::random(Cfg::new(n * 2, 1, 1, ext), ValueClass::One, PromiseClass::AllNone, false, rng);
            let ts = [a.0.transcript(), b.0.transcript()];
            let _ = verify_many(&ts, &[a.0.statement(), other.statement()], &[a.1.clone(), b.1.clone()], VerifyAction::VerifyOnly);
            "batch refused as inconsistent"
        },
        6 => {
            let mut b = vec![0u8; (rng.next_u32() % 500) as usize];
            rng.fill_bytes(&mut b);
            let _ = Proof::from_bytes(&b);
            "decode garbage"
        },
        7 => {
            let _ = params_uncached(BITS[op % 7], 1 << (op % 4), ext);
            "construct parameters"
        },
        8 => {
            if let Some((c, p)) = mk(1, rng) {
                let _ = verify_one(&c.transcript(), &c.statement(), &p, VerifyAction::RecoverOnly);
                let wrong = c.statement_with(&c.params(), &c.promises, Some(rand_scalar(rng)));
                let _ = verify_one(&c.transcript(), &wrong, &p, VerifyAction::RecoverAndVerify);
            }
            "recover (right and wrong seed)"
        },
        9 => {
            // invalid witness: the prover errors out half-way
            let case = Case::random(Cfg::new(n, 2, 2, ext), ValueClass::One, PromiseClass::AllNone, false, rng);
            let mut w = case.clone();
            w.values[1] = w.values[1].wrapping_add(1) % (1 << n);
            let mut prng = FaultRng::new(RngKind::AllZero);
            let _ = RangeProof::prove_with_rng(&mut case.transcript(), &case.statement(), &w.witness(), &mut prng);
            "prove refused (invalid witness)"
        },
        10 => {
            if let Some((c, p)) = mk(4, rng) {
                let mut parts = Parts::of(&p);
                parts.a = [0u8; 32];
                if let Ok(bad) = parts.to_proof() {
                    let _ = verify_one(&c.transcript(), &c.statement(), &bad, VerifyAction::VerifyOnly);
                }
            }
            "verify fails on an identity point"
        },
        _ => {
            if let Some((c, p)) = mk(1, rng) {
                let big = params_uncached(n, 8, ext);
                let st = c.statement_with(&big, &c.promises, c.seed);
                let _ = verify_one(&c.transcript(), &st, &p, VerifyAction::RecoverAndVerify);
            }
            "verify under a larger capacity"
        },
    }
}

/// Histories followed by probes, all in this process; `virgin` maps probe id -> digest obtained in a fresh process
pub fn histories(ctx: &Ctx, rep: &mut Report, virgin: &dyn Fn(usize) -> Option<String>) {
    let leg = if <P as Gx>::IS_FM { "fm-history" } else { "ris-history" };
    let nh = if ctx.thorough() { 3000 } else { 48 };
    let probes = if ctx.thorough() { 8 } else { 4 };
    let mut baseline: HashMap<usize, String> = HashMap::new();
    for hidx in 0..nh {
        let id = hidx + 1;
        if !ctx.mine(id) {
            continue;
        }
        // every fourth history churns large parameter sets (construct / keep alive / drop / construct again) and is
        // followed by a probe that constructs each of them afresh
        let churn = hidx % 4 == 3;
        let pid = if churn { 100 + (hidx / 4) % 2 } else { hidx % probes };
        let base = match baseline.get(&pid) {
            Some(b) => b.clone(),
            None => {
                let Some(b) = virgin(pid) else {
                    rep.inconclusive(format!("C18: could not obtain the virgin-process result of probe {pid}"));
                    return;
                };
                rep.count("virgin_process_probes", 1);
                baseline.insert(pid, b.clone());
                b
            },
        };
        let mut rng = ctx.rng(&format!("c18-hist-{GROUP}"), id as u64);
        let len = if churn { 5 + (rng.next_u32() % 12) as usize } else { 3 + (rng.next_u32() % 10) as usize };
        let mut names: Vec<String> = vec![];
        pool_clear();
        // the history and the probe run on one thread (a thread-local left dirty by the history is seen by the probe)
        let seed = ctx.seed;
        let ops: Vec<usize> = (0..len).map(|_| (rng.next_u32() % 240) as usize).collect();
        let rep_churn = std::sync::atomic::AtomicU64::new(0);
        let (after_same_thread, op_names) = std::thread::scope(|s| {
            s.spawn(|| {
                let mut r2 = ctx.rng(&format!("c18-hist-ops-{GROUP}"), id as u64);
                let mut nm = vec![];
                for (oi, op) in ops.iter().enumerate() {
                    if churn && oi % 5 != 4 {
                        nm.push(churn_op(*op + 240 * (r2.next_u32() % 9) as usize));
                        rep_churn.fetch_add(1, std::sync::atomic::Ordering::Relaxed);
                    } else {
                        nm.push(history_op(*op, &mut r2).to_string());
                    }
                }
                (no_panic(|| probe(pid, seed)), nm)
            })
            .join()
            .expect("history thread")
        });
        names.extend(op_names);
        let after_fresh_thread = std::thread::scope(|s| s.spawn(|| no_panic(|| probe(pid, seed))).join().expect("probe thread"));
        rep.eval(&(GROUP, "history", hidx));
        rep.count("histories", 1);
        rep.count("history_operations", len as u64);
        rep.count("parameter_churn_operations", rep_churn.load(std::sync::atomic::Ordering::Relaxed));
        if churn {
            rep.count("parameter_churn_histories", 1);
        }
        for n in &names {
            if !n.contains("slot") {
                rep.count(&format!("op_{}", n.replace(' ', "_")), 1);
            }
        }
        let replay = json!({"tier": if ctx.thorough() {"thorough"} else {"quick"}, "seed": ctx.seed, "leg": leg, "case": id, "descr": {"group": GROUP, "probe": pid, "history": names}});
        for (where_, got) in [("on the thread that ran the history", after_same_thread), ("on a fresh thread afterwards", after_fresh_thread)] {
            rep.count("probe_comparisons", 1);
            match got {
                Err(p) => rep.violation("C18 probe-panic", &format!("probe call panicked after a history: {p}"), replay.clone()),
                Ok(d) => {
                    if d != base {
                        rep.violation(
                            &format!("C18 history-dependence [{}]", if where_.starts_with("on the thread") { "same thread" } else { "fresh thread" }),
                            &format!("the results of a fixed set of prove/verify/generator calls differ from those obtained in a virgin process when run {where_}; preceding calls: {names:?}"),
                            replay.clone(),
                        );
                    }
                },
            }
        }
        if hidx < 2 {
            rep.sample(&format!("{GROUP}-history"), json!({"probe": pid, "history": names, "digest": base}));
        }
    }
}
