// C02 (generic legs) — verdict agreement with the independent reference verifier on honest, altered,
// dishonestly-proved and random inputs; challenge reconstruction at the merlin boundary.


/// (library verdict, reference verdict at the challenges the library drew); Err from the codec/constructors = both reject
fn verdicts(alt: &Result<Altered, String>) -> (Result<bool, String>, bool) {
    match alt {
        Err(_) => (Ok(false), false),
        Ok(a) => {
            // the published relation over the documented generators; both verifying modes must give the library's verdict
            let (lv, rv) = verdict_pair(&a.t, &a.st, &a.proof, &a.rst_doc, &a.parts, VerifyAction::VerifyOnly);
            let (lv2, _) = verdict_pair(&a.t, &a.st, &a.proof, &a.rst_doc, &a.parts, VerifyAction::RecoverAndVerify);
            match (lv, lv2) {
                (Ok(x), Ok(y)) if x != y => (Err(format!("VerifyOnly says {x} but RecoverAndVerify says {y}")), rv),
                (Err(e), _) | (_, Err(e)) => (Err(e), rv),
                (Ok(x), _) => (Ok(x), rv),
            }
        },
    }
}

pub fn run(ctx: &Ctx, rep: &mut Report) {
    let (max_mn, max_ncap) = <P as Gx>::bounds(&ctx.tier);
    let (max_mn, max_ncap) = if <P as Gx>::IS_FM { (max_mn.min(512), max_ncap.min(1024)) } else { (max_mn.min(128), max_ncap.min(256)) };
    let mut cfgs = lattice_systematic(max_mn, max_ncap, false);
    let nrand = if ctx.thorough() { 120 } else { 10 };
    cfgs.extend(lattice_random(&mut ctx.rng(&format!("c02-lattice-{GROUP}"), 0), nrand, max_mn, max_ncap));
    let reps = if ctx.thorough() { 4 } else { 1 };
    let mut id = 0usize;
    for (k, cfg) in cfgs.iter().enumerate() {
        for r in 0..reps {
            id += 1;
            if !ctx.mine(id) {
                continue;
            }
            one(ctx, rep, id, *cfg, k + r);
        }
    }
}

fn one(ctx: &Ctx, rep: &mut Report, id: usize, cfg: Cfg, k: usize) {
    <P as Gx>::case_reset();
    let mut rng = ctx.rng(&format!("c02-{GROUP}"), id as u64);
    let vc = VALUE_CLASSES[k % VALUE_CLASSES.len()];
    let pc = PROMISE_CLASSES[(k / 2) % PROMISE_CLASSES.len()];
    let case = Case::random(cfg, vc, pc, k % 3 == 0, &mut rng);
    let leg = if <P as Gx>::IS_FM { "fm-verdict" } else { "ris-verdict" };
    let replay = |what: &str| json!({"tier": if ctx.thorough() {"thorough"} else {"quick"}, "seed": ctx.seed, "leg": leg, "case": id, "descr": case.json(), "input": what});
    let sig_cfg = format!("{GROUP} bits={} m={} ext={}", cfg.n, cfg.m, cfg.ext);
    let mut prng = FaultRng::new(RngKind::Healthy(rng.next_u64()));
    let Ok(proof) = case.prove(&mut prng) else {
        rep.note(format!("C02: prover refused a valid case ({sig_cfg}); see C01"));
        return;
    };
    let parts = Parts::of(&proof);
    let other = {
        let c2 = Case::random(cfg, ValueClass::RandomLow, PromiseClass::AllNone, false, &mut rng);
        c2.prove(&mut prng).ok().map(|p| Parts::of(&p))
    };

    let mut agree = |rep: &mut Report, name: &str, alt: Result<Altered, String>, expect_reject: bool| {
        let (lv, rv) = verdicts(&alt);
        rep.eval(&(GROUP, case.key(), name.to_string()));
        rep.count("verdict_comparisons", 1);
        match lv {
            Err(p) if p.starts_with("VerifyOnly says") => rep.violation(&format!("C02 modes-disagree {sig_cfg} [{}]", class_of(name)), &format!("on input `{name}`: {p}"), replay(name)),
            Err(p) => rep.violation(&format!("C02 verify-panic {sig_cfg}"), &format!("verifier panicked on `{name}`: {p}"), replay(name)),
            Ok(l) => {
                if l {
                    rep.count("lib_accepts", 1);
                } else {
                    rep.count("lib_rejects", 1);
                }
                if l != rv {
                    rep.violation(
                        &format!("C02 verdict-disagrees lib={l} ref={rv} {sig_cfg} [{}]", class_of(name)),
                        &format!("library verdict {l} but the reference evaluation of the relation says {rv} on input `{name}`"),
                        replay(name),
                    );
                } else if l && expect_reject {
                    rep.violation(
                        &format!("C02 both-accept-invalid {sig_cfg} [{}]", class_of(name)),
                        &format!("library and reference both accept `{name}`, which is invalid by construction (harness or reference defect?)"),
                        replay(name),
                    );
                }
            },
        }
    };

    // (a) honest
    agree(rep, "honest", apply_mutation(&case, &proof, &parts, None, &Mutation { name: "id".into(), alter: Alter::Ctx(case.ctx.clone()), noop: true }), false);
    // (b) every single-element alteration (one replacement per position in quick, all in thorough)
    if cfg.mn() > 1 {
        let density = if ctx.thorough() { 3 } else { 1 };
        for mu in mutations(&case, &parts, other.as_ref(), density, &mut rng) {
            let alt = apply_mutation(&case, &proof, &parts, None, &mu);
            agree(rep, &mu.name, alt, !mu.noop);
        }
    } else {
        // zero folding rounds: no forged proof is constructible through the public API; statement-side only
        for mu in mutations(&case, &parts, None, 1, &mut rng) {
            if matches!(mu.alter, Alter::Proof(_)) {
                continue;
            }
            let alt = apply_mutation(&case, &proof, &parts, None, &mu);
            agree(rep, &mu.name, alt, !mu.noop);
        }
    }
    // (c) random well-formed proofs
    if cfg.mn() > 1 {
        let mut p = parts.clone();
        for s in p.d1.iter_mut().chain([&mut p.r1, &mut p.s1]) {
            *s = rand_scalar(&mut rng).to_bytes();
        }
        p.a = enc(&<P as Gx>::random_point(&mut rng));
        p.a1 = enc(&<P as Gx>::random_point(&mut rng));
        p.b = enc(&<P as Gx>::random_point(&mut rng));
        for (l, r) in p.lr.iter_mut() {
            *l = enc(&<P as Gx>::random_point(&mut rng));
            *r = enc(&<P as Gx>::random_point(&mut rng));
        }
        agree(rep, "random well-formed proof", apply_mutation(&case, &proof, &parts, None, &Mutation { name: "rnd".into(), alter: Alter::Proof(p), noop: false }), true);
    }
    // (d) dishonest provers (reference prover driven off the honest path); need at least one folding round
    if cfg.mn() > 1 {
        dishonest(ctx, rep, &case, &mut rng, &mut agree);
    }
    rep.sample(GROUP, json!({"case": case.json(), "inputs": "honest + every single-element alteration + random + dishonest provers"}));
}

fn class_of(name: &str) -> String {
    // signature class: strip indices so that one defect yields one signature per element kind
    name.chars().filter(|c| !c.is_ascii_digit()).collect::<String>().replace("[]", "")
}

fn dishonest(
    _ctx: &Ctx,
    rep: &mut Report,
    case: &Case,
    rng: &mut impl RngCore,
    agree: &mut impl FnMut(&mut Report, &str, Result<Altered, String>, bool),
) {
    let cfg = case.cfg;
    let n = cfg.n;
    let prm = case.params();
    let j = (rng.next_u32() as usize) % cfg.m;
    let build = |values: Vec<u64>, promises: Vec<Option<u64>>, extra_h: Scalar, cheat: refbp::Cheat, rng: &mut dyn RngCore| -> Result<Altered, String> {
        // commitments to the given values (+ extra_h * H on position j, for values that do not fit in u64)
        let mut r = rng;
        let blindings: Vec<Vec<Scalar>> = (0..cfg.m).map(|_| (0..cfg.ext).map(|_| rand_scalar(&mut r)).collect()).collect();
        let mut commitments: Vec<P> = (0..cfg.m).map(|i| commit(prm.pc_gens(), values[i], &blindings[i])).collect();
        if extra_h != Scalar::ZERO {
            commitments[j] = &commitments[j] + &(prm.h_base() * extra_h);
        }
        let rst = ref_statement_of(&prm, cfg.m, &commitments, &promises);
        let rst_doc = ref_statement_documented(&prm, cfg.m, &commitments, &promises);
        let w = RefWitness { values: values.clone(), blindings };
        let t = case.transcript();
        let mut nonce = |_: &str, _: Option<usize>, _: Option<usize>| rand_scalar(&mut r);
        let rp = refbp::ref_prove(&t, &rst, &w, &mut nonce, &cheat);
        let parts = Parts::from_ref(&rp);
        let proof = parts.to_proof().map_err(|e| format!("decode: {e}"))?;
        let st = RangeStatement::init(prm.clone(), commitments, promises, None).map_err(|e| format!("statement: {e}"))?;
        Ok(Altered { t, st, proof, rst, rst_doc, parts })
    };
    let honest_digits = |values: &[u64], promises: &[Option<u64>]| -> Vec<u64> {
        let mut d = vec![];
        for i in 0..cfg.m {
            let v = values[i] - promises[i].unwrap_or(0);
            for b in 0..n {
                d.push((v >> b) & 1);
            }
        }
        d
    };
    // control: the reference prover on the honest path must be accepted by both
    agree(rep, "reference prover, honest", build(case.values.clone(), case.promises.clone(), Scalar::ZERO, refbp::Cheat::Honest, rng), false);
    rep.count("dishonest_controls", 1);
    // value - promise = 2^n at position j: digits (2,1,1,...,1)
    {
        let mut values = case.values.clone();
        let mut promises = case.promises.clone();
        let p = promises[j].unwrap_or(0).min(1);
        promises[j] = if p == 0 { None } else { Some(p) };
        // value = p + 2^n (as a scalar: commit to p and add 2^n * H)
        values[j] = p;
        let mut digits = honest_digits(&values, &promises);
        for b in 0..n {
            digits[j * n + b] = 1;
        }
        digits[j * n] = 2;
        let two_n = Scalar::from(2u8).pow_vartime_compat(n);
        agree(rep, "dishonest prover: value - promise = 2^n, digits (2,1,..,1)", build(values, promises, two_n, refbp::Cheat::Digits(digits), rng), true);
        rep.count("dishonest_provers", 1);
    }
    // value = promise - 1 (value below promise): digits (-1, 0, .., 0)
    {
        let mut values = case.values.clone();
        let mut promises = case.promises.clone();
        values[j] = 0;
        promises[j] = Some(1);
        let mut sc: Vec<Scalar> = honest_digits(&{ let mut v = values.clone(); v[j] = 1; v }, &promises).into_iter().map(Scalar::from).collect();
        for b in 0..n {
            sc[j * n + b] = Scalar::ZERO;
        }
        sc[j * n] = -Scalar::ONE;
        agree(rep, "dishonest prover: value = promise - 1, digits (-1,0,..,0)", build(values, promises, Scalar::ZERO, refbp::Cheat::Scalars(sc), rng), true);
        rep.count("dishonest_provers", 1);
    }
    // a digit equal to 2 inside the range (value representable, decomposition not binary)
    if n >= 2 {
        let mut values = case.values.clone();
        let mut promises = case.promises.clone();
        promises[j] = None;
        values[j] = 2;
        let mut digits = honest_digits(&values, &promises);
        for b in 0..n {
            digits[j * n + b] = 0;
        }
        digits[j * n] = 2;
        agree(rep, "dishonest prover: in-range value, digit 2", build(values, promises, Scalar::ZERO, refbp::Cheat::Digits(digits), rng), true);
        rep.count("dishonest_provers", 1);
    }
    // radix 3 used consistently by the prover (decomposition and d vector)
    {
        let mut values = case.values.clone();
        let mut promises = case.promises.clone();
        for i in 0..cfg.m {
            promises[i] = None;
            values[i] = if n >= 2 { 2 + (i as u64 % 2) * 3 } else { 2 };
        }
        // for n = 1 the value 2 does not fit in one bit: commit to 0 and add 2H
        let (vals, extra) = if n >= 2 { (values, Scalar::ZERO) } else { (vec![0; cfg.m], Scalar::from(2u8)) };
        let mut vv = vals.clone();
        if n < 2 {
            vv[j] = 2;
        }
        // build with a witness whose value list is what the radix-3 digits encode
        let alt = {
            let commit_vals = vals.clone();
            let mut r = build(commit_vals, promises.clone(), extra, refbp::Cheat::Radix(3), rng);
            if n < 2 {
                // rebuild with the true digit source: the prover must decompose 2, not 0
                r = build_radix_n1(case, &prm, j, rng);
            }
            r
        };
        agree(rep, "dishonest prover: radix 3 used consistently", alt, true);
        rep.count("dishonest_provers", 1);
    }
}

/// radix-3 prover at n = 1: a single digit 2 at position j (value 2 does not fit in one bit)
fn build_radix_n1(case: &Case, prm: &Params, j: usize, rng: &mut impl RngCore) -> Result<Altered, String> {
    let cfg = case.cfg;
    let blindings: Vec<Vec<Scalar>> = (0..cfg.m).map(|_| (0..cfg.ext).map(|_| rand_scalar(rng)).collect()).collect();
    let mut values = vec![0u64; cfg.m];
    values[j] = 2;
    let commitments: Vec<P> = (0..cfg.m).map(|i| commit(prm.pc_gens(), values[i], &blindings[i])).collect();
    let promises = vec![None; cfg.m];
    let rst = ref_statement_of(prm, cfg.m, &commitments, &promises);
    let rst_doc = ref_statement_documented(prm, cfg.m, &commitments, &promises);
    let w = RefWitness { values, blindings };
    let t = case.transcript();
    let mut nonce = |_: &str, _: Option<usize>, _: Option<usize>| rand_scalar(rng);
    let rp = refbp::ref_prove(&t, &rst, &w, &mut nonce, &refbp::Cheat::Radix(3));
    let parts = Parts::from_ref(&rp);
    let proof = parts.to_proof().map_err(|e| format!("decode: {e}"))?;
    let st = RangeStatement::init(prm.clone(), commitments, promises, None).map_err(|e| format!("statement: {e}"))?;
    Ok(Altered { t, st, proof, rst, rst_doc, parts })
}

trait PowCompat {
    fn pow_vartime_compat(&self, n: usize) -> Scalar;
}

impl PowCompat for Scalar {
    fn pow_vartime_compat(&self, n: usize) -> Scalar {
        let mut r = Scalar::ONE;
        for _ in 0..n {
            r *= self;
        }
        r
    }
}
