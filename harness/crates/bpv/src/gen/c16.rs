// C16 (worker) — hostile inputs to the decoder and verifier. Runs inside a sandboxed child process; the parent
// (checks/c16.rs) attributes an abnormal exit to the case whose id was written to the progress file last.

pub struct Outcome {
    pub family: &'static str,
    pub descr: Value,
    pub input_bytes: usize,
    /// bits * capacity of the largest statement involved (size of the generator tables the verifier walks)
    pub table: usize,
    pub elements: usize,
    pub panic: Option<String>,
    pub mem: crate::spy::MemReport,
    pub steps: u64,
}

fn rnd_el(rng: &mut impl RngCore, scalar: bool) -> [u8; 32] {
    if scalar {
        rand_scalar(rng).to_bytes()
    } else {
        enc(&<P as Gx>::random_point(rng))
    }
}

/// A well-formed proof with `rounds` folding rounds and degree `d`, random content
fn shaped(d: usize, rounds: usize, rng: &mut impl RngCore) -> Parts {
    // reuse one random point for bulk positions when the proof is huge (content does not matter for shape handling)
    let bulk = rounds > 200;
    let p0 = rnd_el(rng, false);
    Parts {
        ext_byte: d as u8,
        d1: (0..d).map(|_| rnd_el(rng, true)).collect(),
        a: rnd_el(rng, false),
        a1: rnd_el(rng, false),
        b: rnd_el(rng, false),
        r1: rnd_el(rng, true),
        s1: rnd_el(rng, true),
        lr: (0..rounds).map(|_| if bulk { (p0, p0) } else { (rnd_el(rng, false), rnd_el(rng, false)) }).collect(),
    }
}

const STATEMENTS: [(usize, usize, usize); 8] = [(1, 1, 1), (2, 1, 2), (4, 2, 2), (8, 4, 4), (64, 1, 1), (16, 2, 8), (64, 2, 2), (1, 8, 8)];

pub fn case_count(thorough: bool) -> usize {
    if thorough {
        240000
    } else {
        24000
    }
}

/// Run hostile case number `i`. All randomness comes from `rng` (seeded from the run seed and `i`).
pub fn run_case(i: usize, rng: &mut impl RngCore, thorough: bool) -> Outcome {
    <P as Gx>::case_reset();
    let family_pick = i % 10;
    let (n, m, cap) = STATEMENTS[(i / 10) % STATEMENTS.len()];
    let ds = 1 + (i / 80) % 6;
    let mut o = Outcome { family: "", descr: json!({}), input_bytes: 0, table: n * cap, elements: 0, panic: None, mem: Default::default(), steps: 0 };
    // everything that is not the call under observation is prepared before the monitors are armed
    let prm = params(n, cap, ds);
    let commitments: Vec<P> = (0..m).map(|j| if (i + j) % 37 == 0 { P::identity() } else { <P as Gx>::random_point(rng) }).collect();
    let promise_pick = |j: usize| -> Option<u64> {
        match (i / 7 + j) % 7 {
            0 => None,
            1 => Some(0),
            2 => Some(u64::MAX),
            3 => Some(if n < 64 { 1u64 << n } else { u64::MAX }),
            4 => Some(if n < 64 { (1u64 << n) - 1 } else { u64::MAX - 1 }),
            5 => Some(1),
            _ => Some(rng_u64_det(i, j)),
        }
    };
    let promises: Vec<Option<u64>> = (0..m).map(promise_pick).collect();
    let seed = if m == 1 && i % 3 == 0 { Some(Scalar::from(0x5eedu64 + i as u64)) } else { None };
    let st = RangeStatement::init(prm.clone(), commitments.clone(), promises.clone(), seed).expect("statement");
    let action = ACTIONS[(i / 3) % 3];
    let t = Context::plain().transcript();
    let honest = |rng: &mut dyn RngCore| -> Option<(Case, Proof)> {
        let mut r = rng;
        let case = Case::random(Cfg::new(n, m, cap, ds), VALUE_CLASSES[i % 6], PROMISE_CLASSES[i % 5], m == 1, &mut r);
        let mut prng = FaultRng::new(RngKind::Healthy(r.next_u64()));
        let p = case.prove(&mut prng).ok()?;
        Some((case, p))
    };
    match family_pick {
        // ---- F1: byte strings into the decoder
        0 | 1 => {
            o.family = "decode";
            let kind = (i / 10) % 20;
            if kind >= 13 {
                // the serde form driven by a hostile data format: other visitor entry points, lying size hints
                let mode = kind - 13;
                let body = if i % 3 == 0 { shaped(1 + i % 6, 1 + (i / 6) % 8, rng).to_bytes() } else { (0..(rng.next_u32() % 300) as usize).map(|_| rng.next_u32() as u8).collect() };
                let hint = [usize::MAX, 1 << 40, 1 << 28, 1 << 20, body.len(), 0][(i / 7) % 6];
                o.input_bytes = body.len();
                o.elements = body.len() / 32;
                o.table = 0;
                o.descr = json!({"family": "decode", "kind": "hostile serde format", "visitor_entry": (["visit_seq", "visit_byte_buf", "visit_borrowed_bytes", "visit_str", "visit_u64", "visit_map", "visit_none/unit/newtype"][mode]), "size_hint": hint, "len": body.len()});
                observe(&mut o, || {
                    let _ = <Proof as serde::Deserialize>::deserialize(hostile::Hostile { mode, bytes: &body, hint });
                });
                return o;
            }
            let bytes: Vec<u8> = match kind {
                0 => vec![],
                1 => vec![(i % 256) as u8],
                2 => {
                    let len = (rng.next_u32() % 3000) as usize;
                    (0..len).map(|_| rng.next_u32() as u8).collect()
                },
                3 => shaped(1 + i % 6, 1 + (i / 6) % 70, rng).to_bytes(),
                4 => {
                    let mut b = shaped(1 + i % 6, 1 + (i / 6) % 20, rng).to_bytes();
                    b.truncate((rng.next_u32() as usize) % b.len().max(1));
                    b
                },
                5 => {
                    let mut b = shaped(1 + i % 6, 1 + (i / 6) % 20, rng).to_bytes();
                    b[0] = rng.next_u32() as u8;
                    b
                },
                6 => {
                    // one mebibyte with a valid tag
                    let mut b = vec![0u8; 1 << 20];
                    b[0] = 1 + (i % 6) as u8;
                    b
                },
                7 => shaped(1 + i % 6, 1 << 16, rng).to_bytes(), // 2^16 rounds, ~4 MiB
                8 => {
                    let mut b = vec![0xFFu8; 1 + 32 * (7 + 2 * (i % 50))];
                    b[0] = 1;
                    b
                },
                9 => {
                    let mut b = shaped(6, 3, rng).to_bytes();
                    let pos = 1 + 32 * (i % 6) + 31;
                    b[pos] = 0xFF;
                    b
                },
                10 => vec![(1 + i % 6) as u8; 1 + 32 * ((i / 6) % 100)],
                11 => {
                    // lengths around the smallest well-formed encodings of each degree, content canonical as scalars
                    let tag = 1 + (i / 200) % 6;
                    let len = 1 + 32 * (6 + (i / 1200) % 9) + [0usize, 0, 1, 31][(i / 400) % 4];
                    let mut b: Vec<u8> = (0..len).map(|k| if k > 0 && (k - 1) % 32 == 31 { 0x0F } else { (k * 13 + i) as u8 }).collect();
                    b[0] = tag as u8;
                    b
                },
                _ => {
                    let len = 1 + 32 * ((rng.next_u32() % 60) as usize) + (rng.next_u32() % 3) as usize;
                    let mut b: Vec<u8> = (0..len).map(|_| rng.next_u32() as u8).collect();
                    b[0] = (1 + i % 6) as u8;
                    b
                },
            };
            o.input_bytes = bytes.len();
            o.elements = bytes.len() / 32;
            o.table = 0;
            o.descr = json!({"family": "decode", "kind": kind, "len": bytes.len(), "tag": bytes.first()});
            // the same bytes once more, ending exactly at / starting exactly after an inaccessible page: a read outside
            // the slice faults (the child dies, which the parent attributes to this case)
            let fenced: Vec<Guarded> = if bytes.len() <= (1 << 21) { [true, false].iter().filter_map(|e| Guarded::new(&bytes, *e)).collect() } else { vec![] };
            observe(&mut o, || {
                for g in &fenced {
                    let _ = Proof::from_bytes(g.slice());
                    let _ = Proof::extension_degree_from_proof_bytes(g.slice());
                }
                let _ = Proof::from_bytes(&bytes);
                // the serde path
                let mut framed = (bytes.len() as u64).to_le_bytes().to_vec();
                framed.extend_from_slice(&bytes);
                let _ = bincode::deserialize::<Proof>(&framed);
                // a length prefix that lies
                let mut lying = ((bytes.len() as u64) << 20).to_le_bytes().to_vec();
                lying.extend_from_slice(&bytes[..bytes.len().min(64)]);
                let _ = bincode::deserialize::<Proof>(&lying);
                let _ = Proof::extension_degree_from_proof_bytes(&bytes);
            });
        },
        // ---- F2: every proof shape against every statement shape
        2 | 3 | 4 => {
            o.family = "shape";
            let dp = 1 + (i / 10) % 6;
            let rounds = match (i / 60) % 80 {
                r if r < 70 => 1 + r,
                70 => 1 << 16,
                71 => 1 << 12,
                72 => 63,
                73 => 64,
                74 => 65,
                75 => 31,
                76 => 32,
                77 => 33,
                78 => 128,
                _ => 255,
            };
            if rounds > 5000 && !thorough && i % 4 != 0 {
                o.family = "skipped";
                return o;
            }
            let parts = shaped(dp, rounds, rng);
            let bytes = parts.to_bytes();
            o.input_bytes = bytes.len();
            o.elements = bytes.len() / 32;
            o.descr = json!({"family": "shape", "statement": {"bits": n, "aggregation": m, "capacity": cap, "degree": ds}, "proof": {"degree": dp, "rounds": rounds}, "promises": promises, "mode": action_name(action), "seeded": seed.is_some()});
            let Ok(proof) = Proof::from_bytes(&bytes) else {
                o.family = "skipped";
                return o;
            };
            observe(&mut o, || {
                let _ = RangeProof::verify_batch(&mut [t.clone()], std::slice::from_ref(&st), std::slice::from_ref(&proof), action);
            });
        },
        // ---- F3: identity / undecodable points and zero scalars in every position of an honest proof
        5 | 6 => {
            o.family = "element";
            let Some((case, proof)) = honest(rng) else {
                o.family = "skipped";
                return o;
            };
            if case.cfg.mn() < 2 {
                o.family = "skipped";
                return o;
            }
            let mut parts = Parts::of(&proof);
            let npos = 3 + 2 * parts.lr.len() + 2 + parts.d1.len();
            let pos = (i / 10) % npos;
            let how = (i / 7) % 3;
            let pts = 3 + 2 * parts.lr.len();
            let val: [u8; 32] = if pos < pts {
                match how {
                    0 => [0u8; 32],
                    1 => <P as Gx>::undecodable(),
                    _ => { let mut x = [0xFFu8; 32]; x[0] = 0xEC; x },
                }
            } else {
                [0u8; 32]
            };
            let nl = parts.lr.len();
            let slot: &mut [u8; 32] = match pos {
                0 => &mut parts.a,
                1 => &mut parts.a1,
                2 => &mut parts.b,
                p if p < pts => {
                    let j = (p - 3) / 2;
                    if (p - 3) % 2 == 0 { &mut parts.lr[j].0 } else { &mut parts.lr[j].1 }
                },
                p if p == pts => &mut parts.r1,
                p if p == pts + 1 => &mut parts.s1,
                p => &mut parts.d1[p - pts - 2],
            };
            *slot = val;
            let bytes = parts.to_bytes();
            o.input_bytes = bytes.len();
            o.elements = bytes.len() / 32;
            o.descr = json!({"family": "element", "cfg": case.cfg.json(), "position": pos, "rounds": nl, "replacement": (["identity/zero", "undecodable", "non-canonical point"][how]), "mode": action_name(action)});
            let Ok(p2) = Proof::from_bytes(&bytes) else {
                o.family = "skipped";
                return o;
            };
            let stc = case.statement();
            let tc = case.transcript();
            observe(&mut o, || {
                let _ = RangeProof::verify_batch(&mut [tc.clone()], std::slice::from_ref(&stc), std::slice::from_ref(&p2), action);
            });
        },
        // ---- F4: batch shapes
        7 | 8 => {
            o.family = "batch";
            let k = 1 + (i / 10) % 5;
            let mut sts: Vec<Stmt> = vec![];
            let mut proofs: Vec<Proof> = vec![];
            let mut descr_members = vec![];
            for j in 0..k {
                // members of differing capacity, aggregation; some hostile shapes
                let (nn, mm, cc) = if (i / 50 + j) % 3 == 0 { STATEMENTS[(i / 10 + j) % STATEMENTS.len()] } else { (n, [1usize, 2, 4][(i + j) % 3].min(cap.max(1)), [cap, cap * 2, cap * 4][(i / 3 + j) % 3]) };
                let mm = mm.min(cc);
                let dd = if (i / 11 + j) % 9 == 0 { 1 + (ds % 6) } else { ds };
                let prm = params(nn, cc, dd);
                let cs: Vec<P> = (0..mm).map(|_| <P as Gx>::random_point(rng)).collect();
                let stj = RangeStatement::init(prm, cs, vec![None; mm], None).expect("statement");
                let rounds = if (i / 13 + j) % 4 == 0 { 1 + (i + j) % 12 } else { (nn * mm).ilog2().max(1) as usize };
                let dpj = if (i / 17 + j) % 7 == 0 { 1 + (i + j) % 6 } else { dd };
                let pj = Proof::from_bytes(&shaped(dpj, rounds, rng).to_bytes()).expect("decodable");
                descr_members.push(json!({"bits": nn, "aggregation": mm, "capacity": cc, "degree": dd, "proof_degree": dpj, "proof_rounds": rounds}));
                o.table = o.table.max(nn * cc);
                o.input_bytes += 1 + 32 * (5 + dpj + 2 * rounds);
                sts.push(stj);
                proofs.push(pj);
            }
            // mismatched lengths of the three sequences
            let (nt, ns, np) = match (i / 10) % 8 {
                0 => (0, k, k),
                1 => (k, 0, k),
                2 => (k, k, 0),
                3 => (k + 1, k, k),
                4 => (k, k - 1, k),
                5 => (k, k, k - 1),
                _ => (k, k, k),
            };
            let mut ts: Vec<Transcript> = (0..nt).map(|_| Context::plain().transcript()).collect();
            sts.truncate(ns);
            proofs.truncate(np);
            o.elements = o.input_bytes / 32;
            o.descr = json!({"family": "batch", "members": descr_members, "lengths": [nt, ns, np], "mode": action_name(action)});
            observe(&mut o, || {
                let _ = RangeProof::verify_batch(&mut ts, &sts, &proofs, action);
            });
        },
        // ---- F5: honest proofs against hostile statements (promises at boundaries, identity commitments, other degree)
        9 if (i / 10) % 25 == 0 => {
            // a long, valid, mixed-size batch: beyond one internal chunk, largest member first / last / in the middle
            o.family = "batch";
            let nn = [2usize, 4][(i / 250) % 2];
            let k = 257 + (i / 250) % 50;
            let big_at = [0usize, k - 1, 256, 128][(i / 500) % 4];
            let mut pool: Vec<(Case, Proof)> = vec![];
            for (mm, cc) in [(4usize, 4usize), (1, 1), (2, 2), (1, 4), (2, 8)] {
                let mut r = &mut *rng;
                let case = Case::random(Cfg::new(nn, mm, cc, ds), VALUE_CLASSES[(i + mm) % 6], PROMISE_CLASSES[(i + cc) % 5], false, &mut r);
                let mut prng = FaultRng::new(RngKind::Healthy(r.next_u64()));
                if let Ok(p) = case.prove(&mut prng) {
                    pool.push((case, p));
                }
            }
            if pool.len() < 5 {
                o.family = "skipped";
                return o;
            }
            let idx: Vec<usize> = (0..k).map(|j| if j == big_at { 0 } else { 1 + (j + i) % 4 }).collect();
            let mut ts: Vec<Transcript> = idx.iter().map(|x| pool[*x].0.transcript()).collect();
            let sts: Vec<Stmt> = idx.iter().map(|x| pool[*x].0.statement()).collect();
            let proofs: Vec<Proof> = idx.iter().map(|x| pool[*x].1.clone()).collect();
            o.input_bytes = proofs.iter().map(|p| p.to_bytes().len()).sum();
            o.elements = o.input_bytes / 32;
            o.table = nn * 8;
            o.descr = json!({"family": "batch", "valid_batch_of": k, "bits": nn, "degree": ds, "largest_member_at": big_at, "mode": action_name(action)});
            observe(&mut o, || {
                let _ = RangeProof::verify_batch(&mut ts, &sts, &proofs, action);
            });
        },
        _ => {
            o.family = "statement";
            // statements a validating constructor must refuse; should it accept one, the verifier gets it
            if (i / 10) % 5 == 4 {
                let Some((case, proof)) = honest(rng) else {
                    o.family = "skipped";
                    return o;
                };
                let which = (i / 50) % 4;
                let mut pr = case.promises.clone();
                let mut cs = case.commitments.clone();
                let mut sd = case.seed;
                match which {
                    0 => pr.push(None),
                    1 => pr.push(Some(3)),
                    2 => {
                        if pr.len() > 1 {
                            pr.pop();
                        } else {
                            pr.push(Some(0));
                        }
                    },
                    _ => {
                        // more commitments than the parameters' capacity, or a seed on an aggregate
                        cs = (0..(2 * cap).max(2)).map(|_| <P as Gx>::random_point(rng)).collect();
                        pr = vec![None; cs.len()];
                        sd = Some(Scalar::ONE);
                    },
                }
                match RangeStatement::init(case.params(), cs, pr.clone(), sd) {
                    Err(_) => {
                        o.family = "refused_by_constructor";
                        o.descr = json!({"family": "statement", "note": "refused by the validating constructor, as it must"});
                        return o;
                    },
                    Ok(st_bad) => {
                        o.input_bytes = proof.to_bytes().len();
                        o.elements = o.input_bytes / 32;
                        o.descr = json!({"family": "statement", "note": "a statement the validating constructor should have refused was accepted; handed to the verifier", "cfg": case.cfg.json(), "promise_count": pr.len(), "mode": action_name(action)});
                        let tc = case.transcript();
                        observe(&mut o, || {
                            let _ = RangeProof::verify_batch(&mut [tc.clone()], std::slice::from_ref(&st_bad), std::slice::from_ref(&proof), action);
                        });
                        return o;
                    },
                }
            }
            let Some((case, proof)) = honest(rng) else {
                o.family = "skipped";
                return o;
            };
            let other_prm = params(n, cap, 1 + (ds + i) % 6);
            let use_prm = if (i / 10) % 4 == 0 { other_prm } else { case.params() };
            let cs: Vec<P> = match (i / 10) % 6 {
                0 => commitments.clone(),
                1 => {
                    // the honest commitments with one of them replaced by the identity
                    let mut c = case.commitments.clone();
                    c[(i / 60) % m] = P::identity();
                    c
                },
                2 => vec![P::identity(); m],
                3 => {
                    // the same commitment at every position
                    vec![case.commitments[0].clone(); m]
                },
                _ => case.commitments.clone(),
            };
            let Ok(st2) = RangeStatement::init(use_prm, cs, promises.clone(), seed) else {
                o.family = "skipped";
                return o;
            };
            o.input_bytes = proof.to_bytes().len();
            o.elements = o.input_bytes / 32;
            o.descr = json!({"family": "statement", "cfg": case.cfg.json(), "promises": promises, "mode": action_name(action), "seeded": seed.is_some(),
                "commitments": (["unrelated points", "one replaced by the identity", "all identity", "all equal", "honest", "honest"][(i / 10) % 6])});
            let tc = case.transcript();
            observe(&mut o, || {
                let _ = RangeProof::verify_batch(&mut [tc.clone()], std::slice::from_ref(&st2), std::slice::from_ref(&proof), action);
            });
        },
    }
    o
}

fn rng_u64_det(i: usize, j: usize) -> u64 {
    let mut s = SplitMix64((i as u64) << 20 | j as u64);
    s.next()
}

/// Arm the monitors around exactly the call under observation
fn observe(o: &mut Outcome, f: impl FnOnce()) {
    crate::fm::reset_ops();
    crate::spy::track_start(1 << 33); // 8 GiB: a single larger request is refused (-> abort, seen by the parent)
    let _ = crate::spy::take_overruns();
    let r = no_panic(f);
    o.mem = crate::spy::track_stop();
    o.steps = crate::fm::ops();
    if let Err(p) = r {
        o.panic = Some(p);
    }
    // the red zone behind every heap block released during the call was intact
    let (overruns, size) = crate::spy::take_overruns();
    if overruns > 0 && o.panic.is_none() {
        o.panic = Some(format!("heap overrun: {overruns} heap block(s) were written past their end (last one a block of {size} bytes)"));
    }
}


/// A data format that is out to get the visitor: it answers `deserialize_bytes` (and everything else) through
/// whichever visitor entry point it likes, with size hints that lie
pub mod hostile {
    use serde::de::{self, DeserializeSeed, Deserializer, IntoDeserializer, MapAccess, SeqAccess, Visitor};

    pub struct Hostile<'a> {
        pub mode: usize,
        pub bytes: &'a [u8],
        pub hint: usize,
    }

    struct Seq<'a> {
        bytes: &'a [u8],
        pos: usize,
        hint: usize,
    }

    impl<'de, 'a> SeqAccess<'de> for Seq<'a> {
        type Error = de::value::Error;

        fn next_element_seed<T: DeserializeSeed<'de>>(&mut self, seed: T) -> Result<Option<T::Value>, Self::Error> {
            if self.pos >= self.bytes.len() {
                return Ok(None);
            }
            let b = self.bytes[self.pos];
            self.pos += 1;
            seed.deserialize(b.into_deserializer()).map(Some)
        }

        fn size_hint(&self) -> Option<usize> {
            Some(self.hint)
        }
    }

    struct EmptyMap(usize);

    impl<'de> MapAccess<'de> for EmptyMap {
        type Error = de::value::Error;

        fn next_key_seed<K: DeserializeSeed<'de>>(&mut self, _seed: K) -> Result<Option<K::Value>, Self::Error> {
            Ok(None)
        }

        fn next_value_seed<V: DeserializeSeed<'de>>(&mut self, _seed: V) -> Result<V::Value, Self::Error> {
            Err(de::Error::custom("no value"))
        }

        fn size_hint(&self) -> Option<usize> {
            Some(self.0)
        }
    }

    impl<'de, 'a: 'de> Deserializer<'de> for Hostile<'a> {
        type Error = de::value::Error;

        fn deserialize_any<V: Visitor<'de>>(self, visitor: V) -> Result<V::Value, Self::Error> {
            match self.mode {
                0 => visitor.visit_seq(Seq { bytes: self.bytes, pos: 0, hint: self.hint }),
                1 => visitor.visit_byte_buf(self.bytes.to_vec()),
                2 => visitor.visit_borrowed_bytes(self.bytes),
                3 => visitor.visit_str(&String::from_utf8_lossy(self.bytes)),
                4 => visitor.visit_u64(self.hint as u64),
                5 => visitor.visit_map(EmptyMap(self.hint)),
                _ => match self.hint % 3 {
                    0 => visitor.visit_none(),
                    1 => visitor.visit_unit(),
                    _ => visitor.visit_newtype_struct(Hostile { mode: 0, bytes: self.bytes, hint: self.hint }),
                },
            }
        }

        serde::forward_to_deserialize_any! {
            bool i8 i16 i32 i64 i128 u8 u16 u32 u64 u128 f32 f64 char str string bytes byte_buf option unit unit_struct
            newtype_struct seq tuple tuple_struct map struct enum identifier ignored_any
        }
    }
}
