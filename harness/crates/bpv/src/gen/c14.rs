// C14 — prover randomness is hedged against failure of the external RNG. Observed at the merlin boundary:
// the transcript-RNG draws (these are the RNG-derived nonces) and the lineage of every RNG they come from.

use merlin::probe::{self, Event, Kind};

struct Run {
    proof_bytes: Vec<u8>,
    draws: Vec<Vec<u8>>,
    events: Vec<Event>,
    ext_bytes: u64,
}

/// An instance that may use degenerate Pedersen generators (public fields), so that two different witnesses
/// open the same commitments
#[derive(Clone)]
struct Inst {
    prm: Params,
    commitments: Vec<P>,
    promises: Vec<Option<u64>>,
    values: Vec<u64>,
    blindings: Vec<Vec<Scalar>>,
    seed: Option<Scalar>,
    ctx: Context,
}

impl Inst {
    fn statement(&self) -> Stmt {
        RangeStatement::init(self.prm.clone(), self.commitments.clone(), self.promises.clone(), self.seed).expect("statement")
    }

    fn witness(&self) -> RangeWitness {
        RangeWitness::init((0..self.values.len()).map(|j| CommitmentOpening::new(self.values[j], self.blindings[j].clone())).collect()).expect("witness")
    }

    fn witness_bytes(&self) -> Vec<u8> {
        let mut b = vec![];
        for j in 0..self.values.len() {
            b.extend_from_slice(&self.values[j].to_le_bytes());
            for r in &self.blindings[j] {
                b.extend_from_slice(r.as_bytes());
            }
        }
        b
    }

    fn run(&self, kind: &RngKind) -> Result<Run, String> {
        let st = self.statement();
        let w = self.witness();
        let mut t = self.ctx.transcript();
        let mut prng = FaultRng::new(kind.clone());
        probe::arm();
        let r = no_panic(|| RangeProof::prove_with_rng(&mut t, &st, &w, &mut prng));
        let events = probe::take();
        let proof = r?.map_err(|e| e.to_string())?;
        let draws = events.iter().filter(|e| e.kind == Kind::RngFill).map(|e| e.data.clone()).collect();
        Ok(Run { proof_bytes: proof.to_bytes(), draws, events, ext_bytes: prng.bytes_drawn })
    }
}

pub fn run(ctx: &Ctx, rep: &mut Report) {
    let (max_mn, max_ncap) = if <P as Gx>::IS_FM { (256, 512) } else { (64, 128) };
    let mut cfgs = lattice_systematic(max_mn, max_ncap, false);
    let nrand = if ctx.thorough() { 300 } else { 24 };
    cfgs.extend(lattice_random(&mut ctx.rng(&format!("c14-lattice-{GROUP}"), 0), nrand, max_mn, max_ncap));
    let reps = if ctx.thorough() { 60 } else { 3 };
    let mut id = 0usize;
    for (k, cfg) in cfgs.iter().enumerate() {
        for r in 0..reps {
            id += 1;
            if ctx.mine(id) {
                one(ctx, rep, id, *cfg, k + r);
            }
        }
    }
}

fn one(ctx: &Ctx, rep: &mut Report, id: usize, cfg: Cfg, k: usize) {
    <P as Gx>::case_reset();
    clear_params_cache();
    let leg = if <P as Gx>::IS_FM { "fm" } else { "ris" };
    let mut rng = ctx.rng(&format!("c14-{GROUP}"), id as u64);
    let n = cfg.n;
    let m = cfg.m;
    let ext = cfg.ext;
    let seeded = m == 1 && k % 3 == 0;
    // values strictly inside the range so that v+1 / promise changes stay valid
    let values: Vec<u64> = (0..m).map(|_| if n == 1 { 0 } else { 1 + rng.next_u64() % ((cfg.max_value() - 1).max(1)) }).collect();
    let blindings: Vec<Vec<Scalar>> = (0..m).map(|_| (0..ext).map(|_| rand_scalar(&mut rng)).collect()).collect();
    let promises: Vec<Option<u64>> = (0..m).map(|j| if (j + k) % 2 == 0 { None } else { Some(values[j] / 2) }).collect();
    let base_pc = <P as Gx>::pedersen(ext);
    let mk = |pc: PedersenGens<P>, values: Vec<u64>, blindings: Vec<Vec<Scalar>>, promises: Vec<Option<u64>>, c: Context| -> Inst {
        let prm = RangeParameters::init(n, cfg.cap, pc).expect("params");
        let commitments = (0..m).map(|j| commit(prm.pc_gens(), values[j], &blindings[j])).collect();
        Inst { prm, commitments, promises, values, blindings, seed: None, ctx: c }
    };
    let context = Context::random(&mut rng);
    let seed = if seeded { Some(rand_scalar(&mut rng)) } else { None };
    let mut base = mk(base_pc.clone(), values.clone(), blindings.clone(), promises.clone(), context.clone());
    base.seed = seed;
    // the variants: each differs from `base_of` in exactly one thing
    let mut variants: Vec<(String, Inst, Inst)> = vec![];
    // (b) transcript context
    {
        let mut v = base.clone();
        v.ctx.extra.push(vec![0x14]);
        variants.push(("transcript context".into(), base.clone(), v));
    }
    // (c) one statement field: a promise (both values <= v)
    {
        let j = k % m;
        let mut v = base.clone();
        let cur = v.promises[j].unwrap_or(0);
        v.promises[j] = Some(if cur < values[j] { cur + 1 } else { cur.saturating_sub(1) });
        if v.promises[j].unwrap_or(0) != cur {
            variants.push((format!("promise[{j}]"), base.clone(), v));
        }
    }
    // (c'') the same promise at another position of the vector ([Some(1), None, ..] vs [None, Some(1), ..])
    if m >= 2 && n >= 2 {
        let a = k % (m - 1);
        let mut p1: Vec<Option<u64>> = vec![None; m];
        let mut p2: Vec<Option<u64>> = vec![None; m];
        p1[a] = Some(1);
        p2[a + 1] = Some(1);
        let mut i1 = mk(base_pc.clone(), values.clone(), blindings.clone(), p1, context.clone());
        let mut i2 = mk(base_pc.clone(), values.clone(), blindings.clone(), p2, context.clone());
        i1.seed = seed;
        i2.seed = seed;
        variants.push((format!("position of a promise ({a} vs {})", a + 1), i1, i2));
    }
    // (c') the commitments (another blinding vector: public data differ)
    {
        let mut bl = blindings.clone();
        bl[k % m][0] += Scalar::ONE;
        let mut v = mk(base_pc.clone(), values.clone(), bl, promises.clone(), context.clone());
        v.seed = seed;
        variants.push(("a commitment".into(), base.clone(), v));
    }
    // (a) the witness, with IDENTICAL public data: degenerate generators G_a = G_b, components a and b re-split
    if ext >= 2 {
        for (a, b) in [(0usize, 1usize), (ext - 2, ext - 1), (0, ext - 1)] {
            if a == b {
                continue;
            }
            let mut pc = base_pc.clone();
            pc.g_base_vec[b] = pc.g_base_vec[a].clone();
            pc.g_base_compressed_vec[b] = pc.g_base_compressed_vec[a];
            let mut i1 = mk(pc.clone(), values.clone(), blindings.clone(), promises.clone(), context.clone());
            i1.seed = seed;
            let j = k % m;
            let t = rand_scalar(&mut rng);
            let mut bl2 = blindings.clone();
            if k % 2 == 0 {
                bl2[j][a] += t;
                bl2[j][b] -= t;
            } else {
                bl2[j].swap(a, b);
            }
            let mut i2 = mk(pc, values.clone(), bl2, promises.clone(), context.clone());
            i2.seed = seed;
            if i1.commitments == i2.commitments && i1.blindings != i2.blindings {
                variants.push((format!("witness blinding components {a},{b} (same commitment, G_{a} = G_{b})"), i1, i2));
            }
        }
    }
    // (a') value and blinding traded against each other: H = G_0, (v, r) vs (v+1, r-1)
    if n >= 2 {
        let mut pc = base_pc.clone();
        pc.h_base = pc.g_base_vec[0].clone();
        pc.h_base_compressed = pc.g_base_compressed_vec[0];
        let mut i1 = mk(pc.clone(), values.clone(), blindings.clone(), vec![None; m], context.clone());
        i1.seed = seed;
        let j = k % m;
        if values[j] < cfg.max_value() {
            let mut v2 = values.clone();
            let mut bl2 = blindings.clone();
            v2[j] += 1;
            bl2[j][0] -= Scalar::ONE;
            let mut i2 = mk(pc, v2, bl2, vec![None; m], context.clone());
            i2.seed = seed;
            if i1.commitments == i2.commitments {
                variants.push(("witness value/blinding trade (same commitment, H = G_0)".into(), i1, i2));
            }
        }
    }
    let kinds = rng_kinds(rng.next_u64());
    for (vi, (name, i1, i2)) in variants.iter().enumerate() {
        let kind = kinds[1 + (k + vi) % 6].clone(); // a faulty RNG, identical stream for both runs
        let class: String = name.chars().filter(|c| !c.is_ascii_digit()).collect();
        let replay = json!({"tier": if ctx.thorough() {"thorough"} else {"quick"}, "seed": ctx.seed, "leg": leg, "case": id,
            "descr": {"group": GROUP, "cfg": cfg.json(), "seeded": seeded, "differs_in": name, "external_rng": format!("{kind:?}")}});
        let (r1, r2) = match (i1.run(&kind), i2.run(&kind)) {
            (Ok(a), Ok(b)) => (a, b),
            (Err(e), _) | (_, Err(e)) => {
                rep.violation("C14 prove-failed", &format!("prover failed or panicked under external RNG {kind:?}: {e}"), replay);
                continue;
            },
        };
        rep.eval(&(GROUP, cfg, seeded, name.clone(), format!("{kind:?}")));
        rep.count("run_pairs", 1);
        rep.count("merlin_events_observed", (r1.events.len() + r2.events.len()) as u64);
        if name.starts_with("witness") {
            rep.count("same_commitment_witness_pairs", 1);
        }
        // (i) no RNG-derived nonce in common
        let s1: std::collections::HashSet<&Vec<u8>> = r1.draws.iter().collect();
        let shared = r2.draws.iter().filter(|d| s1.contains(d)).count();
        rep.count("draws_compared", (r1.draws.len() + r2.draws.len()) as u64);
        let expect_draws = if seeded { 2 } else { 2 + ext * (3 + 2 * cfg.rounds()) };
        if r1.draws.len() < expect_draws {
            rep.violation(&format!("C14 too-few-draws seeded={seeded}"), &format!("only {} values were drawn from the transcript RNG, {expect_draws} nonces must come from it", r1.draws.len()), replay.clone());
        }
        if shared > 0 {
            rep.violation(
                &format!("C14 shared-nonce [{class}] seeded={seeded}"),
                &format!("two runs differing only in {name} share {shared} of {} RNG-derived nonces under external RNG {kind:?}", r1.draws.len()),
                replay.clone(),
            );
        }
        // (iii) lineage of every draw, in both runs
        for (inst, r) in [(i1, &r1), (i2, &r2)] {
            if let Some(problem) = lineage(&r.events, &inst.witness_bytes()) {
                rep.violation(&format!("C14 lineage [{}]", problem.0), &problem.1, replay.clone());
            }
            rep.count("draw_lineages_checked", r.draws.len() as u64);
            // the external RNG is only ever consumed to finalise a transcript RNG
            let fin = r.events.iter().filter(|e| e.kind == Kind::Finalize).count() as u64;
            if r.ext_bytes != 32 * fin {
                rep.violation("C14 external-rng-used-directly", &format!("{} bytes were drawn from the external RNG but only {} transcript-RNG finalisations (32 bytes each) were observed", r.ext_bytes, fin), replay.clone());
            }
        }
        // (ii) identical runs are reproducible
        if vi == 0 {
            if let Ok(r1b) = i1.run(&kind) {
                rep.count("identical_run_pairs", 1);
                if r1b.proof_bytes != r1.proof_bytes {
                    rep.violation("C14 not-reproducible", &format!("two identical runs under the same external RNG stream ({kind:?}) produced different proofs"), replay.clone());
                }
            }
        }
    }
    rep.sample(GROUP, json!({"cfg": cfg.json(), "seeded": seeded, "variants": variants.iter().map(|v| v.0.clone()).collect::<Vec<_>>()}));
}

/// Every RngFill must come from an RNG that was forked from the proving transcript, rekeyed with the
/// serialised witness, finalised with external randomness, and built from the then-current transcript.
fn lineage(events: &[Event], witness_bytes: &[u8]) -> Option<(String, String)> {
    let proving: Vec<u64> = {
        let mut v = vec![];
        for e in events {
            if e.kind == Kind::Challenge && !v.contains(&e.id) {
                v.push(e.id);
            }
        }
        v
    };
    if proving.len() != 1 {
        return Some(("transcripts".into(), format!("challenges drawn on {} transcripts", proving.len())));
    }
    let t = proving[0];
    for (i, f) in events.iter().enumerate() {
        if f.kind != Kind::RngFill {
            continue;
        }
        let r = f.id;
        let build = events.iter().position(|e| e.kind == Kind::BuildRng && e.id2 == r);
        let Some(build) = build else { return Some(("no-build".into(), "a nonce was drawn from an RNG that was not forked from a transcript".into())) };
        if events[build].id != t {
            return Some(("foreign-transcript".into(), "a nonce was drawn from an RNG forked from another transcript than the proving one".into()));
        }
        let rekeys: Vec<usize> = events.iter().enumerate().filter(|(_, e)| e.kind == Kind::Rekey && e.id == r).map(|(j, _)| j).collect();
        if rekeys.is_empty() {
            return Some(("no-witness-rekey".into(), "a nonce was drawn from a transcript RNG that was never rekeyed with the witness: it is a function of public data and the external RNG alone".into()));
        }
        if !rekeys.iter().any(|j| events[*j].data == witness_bytes) {
            let got = rekeys.iter().map(|j| events[*j].data.len()).collect::<Vec<_>>();
            return Some((
                "witness-bytes".into(),
                format!("the transcript RNG was rekeyed with {got:?} bytes that are not the full serialised witness ({} bytes: value and every blinding component of every opening)", witness_bytes.len()),
            ));
        }
        let fin = events.iter().position(|e| e.kind == Kind::Finalize && e.id == r);
        let Some(fin) = fin else { return Some(("no-finalize".into(), "transcript RNG used without being finalised with external randomness".into())) };
        if !(build < rekeys[0] && rekeys[0] < fin && fin < i) {
            return Some(("order".into(), "build / rekey / finalize / draw happened out of order".into()));
        }
        // built from the then-current transcript: nothing appended to the proving transcript in between
        if events[build..i].iter().any(|e| e.kind == Kind::Append && e.id == t) {
            return Some(("stale-rng".into(), "a nonce was drawn from a transcript RNG built before the latest prover message was absorbed: it is not a function of the full transcript".into()));
        }
    }
    None
}
