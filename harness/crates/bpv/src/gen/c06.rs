// C06 — the prover emits a proof exactly when the witness is valid; Ok implies the proof verifies.

#[derive(Clone, Debug)]
struct Attempt {
    name: String,
    valid: bool,
    values: Vec<u64>,              // witness values
    blindings: Vec<Vec<Scalar>>,   // witness blindings
    promises: Vec<Option<u64>>,
    commitments: Vec<P>,
}

pub fn run(ctx: &Ctx, rep: &mut Report) {
    let (max_mn, max_ncap) = if <P as Gx>::IS_FM { (1024, 2048) } else { (256, 512) };
    let mut cfgs = lattice_systematic(max_mn, max_ncap, false);
    let nrand = if ctx.thorough() { 300 } else { 20 };
    cfgs.extend(lattice_random(&mut ctx.rng(&format!("c06-lattice-{GROUP}"), 0), nrand, max_mn, max_ncap));
    let reps = if ctx.thorough() { 4 } else { 1 };
    let mut id = 0usize;
    for (k, cfg) in cfgs.iter().enumerate() {
        for r in 0..reps {
            id += 1;
            if ctx.mine(id) {
                one(ctx, rep, id, *cfg, k + r);
            }
        }
    }
}

fn one(ctx: &Ctx, rep: &mut Report, id: usize, cfg: Cfg, k: usize) {
    <P as Gx>::case_reset();
    let leg = if <P as Gx>::IS_FM { "fm" } else { "ris" };
    let mut rng = ctx.rng(&format!("c06-{GROUP}"), id as u64);
    let prm = params(cfg.n, cfg.cap, cfg.ext);
    let n = cfg.n;
    let m = cfg.m;
    let maxv = cfg.max_value();
    // base: a valid instance with values strictly inside the range where possible
    let base_vals: Vec<u64> = (0..m)
        .map(|j| match (j + k) % 4 {
            0 => maxv,
            1 => maxv / 2,
            2 => pick_value(ValueClass::RandomHigh, n, &mut rng),
            _ => pick_value(ValueClass::RandomLow, n, &mut rng),
        })
        .collect();
    let base_bl: Vec<Vec<Scalar>> = (0..m).map(|_| (0..cfg.ext).map(|_| rand_scalar(&mut rng)).collect()).collect();
    // a mixed promise vector: None on even positions, Some(<= v) on odd ones
    let base_pr: Vec<Option<u64>> = (0..m).map(|j| if (j + k) % 2 == 0 { None } else { Some(base_vals[j] / 2) }).collect();
    let commit_all = |vals: &[u64], bl: &[Vec<Scalar>]| -> Vec<P> { (0..vals.len()).map(|j| commit(prm.pc_gens(), vals[j], &bl[j])).collect() };
    let base_c = commit_all(&base_vals, &base_bl);
    let mk = |name: &str, valid: bool, values: Vec<u64>, blindings: Vec<Vec<Scalar>>, promises: Vec<Option<u64>>, commitments: Vec<P>| Attempt {
        name: name.to_string(),
        valid,
        values,
        blindings,
        promises,
        commitments,
    };
    let mut at: Vec<Attempt> = vec![];
    at.push(mk("valid control", true, base_vals.clone(), base_bl.clone(), base_pr.clone(), base_c.clone()));
    at.push(mk("valid control, no promises", true, base_vals.clone(), base_bl.clone(), vec![None; m], base_c.clone()));
    // degenerate but valid openings: an all-zero blinding vector, a single zero component, value 0 with zero blindings
    {
        let j = k % m;
        let mut bl = base_bl.clone();
        bl[j] = vec![Scalar::ZERO; cfg.ext];
        let c = commit_all(&base_vals, &bl);
        at.push(mk(&format!("valid: blinding vector [{j}] all zero"), true, base_vals.clone(), bl.clone(), base_pr.clone(), c));
        let mut vals = base_vals.clone();
        vals[j] = 0;
        let c = commit_all(&vals, &bl);
        at.push(mk(&format!("valid: value[{j}] = 0 with zero blindings (identity commitment)"), true, vals, bl, vec![None; m], c));
        let mut bl = base_bl.clone();
        bl[j][cfg.ext - 1] = Scalar::ZERO;
        let c = commit_all(&base_vals, &bl);
        at.push(mk(&format!("valid: last blinding component of [{j}] zero"), true, base_vals.clone(), bl, base_pr.clone(), c));
    }
    // positions to break: first, last, one in the middle
    let mut positions = vec![0usize, m - 1, m / 2];
    positions.sort_unstable();
    positions.dedup();
    for &j in &positions {
        let v = base_vals[j];
        // value off by one versus the commitment
        if v < maxv {
            let mut vals = base_vals.clone();
            vals[j] = v + 1;
            at.push(mk(&format!("witness value[{j}] + 1 vs commitment"), false, vals, base_bl.clone(), vec![None; m], base_c.clone()));
        }
        if v > 0 {
            let mut vals = base_vals.clone();
            vals[j] = v - 1;
            at.push(mk(&format!("witness value[{j}] - 1 vs commitment"), false, vals, base_bl.clone(), vec![None; m], base_c.clone()));
        }
        // one blinding component altered
        {
            let kk = (j + k) % cfg.ext;
            let mut bl = base_bl.clone();
            bl[j][kk] += Scalar::ONE;
            at.push(mk(&format!("witness blinding[{j}][k] + 1 vs commitment"), false, base_vals.clone(), bl, base_pr.clone(), base_c.clone()));
        }
        // value = 2^n with a consistent commitment: only the range rule is broken
        if n < 64 {
            let mut vals = base_vals.clone();
            vals[j] = 1u64 << n;
            let c = commit_all(&vals, &base_bl);
            at.push(mk(&format!("value[{j}] = 2^n (consistent commitment)"), false, vals.clone(), base_bl.clone(), vec![None; m], c.clone()));
            // ... also when a promise brings value - promise back into range
            let mut pr: Vec<Option<u64>> = vec![None; m];
            pr[j] = Some(1);
            at.push(mk(&format!("value[{j}] = 2^n with promise 1 (value - promise fits, value does not)"), false, vals.clone(), base_bl.clone(), pr, c.clone()));
            let mut vals2 = base_vals.clone();
            vals2[j] = u64::MAX;
            let c2 = commit_all(&vals2, &base_bl);
            let mut pr2: Vec<Option<u64>> = vec![None; m];
            pr2[j] = Some(u64::MAX - 1);
            at.push(mk(&format!("value[{j}] = u64::MAX with promise u64::MAX - 1"), false, vals2, base_bl.clone(), pr2, c2));
        }
        // the boundary value 2^n - 1 is valid
        {
            let mut vals = base_vals.clone();
            vals[j] = maxv;
            let c = commit_all(&vals, &base_bl);
            at.push(mk(&format!("value[{j}] = 2^n - 1"), true, vals.clone(), base_bl.clone(), vec![None; m], c.clone()));
            let mut pr = base_pr.clone();
            pr[j] = Some(maxv);
            at.push(mk(&format!("value[{j}] = promise = 2^n - 1"), true, vals, base_bl.clone(), pr, c));
        }
        // promises at position j, the other positions keep a mixed Some/None vector
        {
            let mut pr = base_pr.clone();
            pr[j] = Some(v);
            at.push(mk(&format!("promise[{j}] = value"), true, base_vals.clone(), base_bl.clone(), pr, base_c.clone()));
            if v < u64::MAX {
                let mut pr = base_pr.clone();
                pr[j] = Some(v + 1);
                at.push(mk(&format!("promise[{j}] = value + 1"), false, base_vals.clone(), base_bl.clone(), pr, base_c.clone()));
                // the same with every other promise absent / every other promise satisfied
                let mut pr: Vec<Option<u64>> = vec![None; m];
                pr[j] = Some(v + 1);
                at.push(mk(&format!("promise[{j}] = value + 1, others None"), false, base_vals.clone(), base_bl.clone(), pr, base_c.clone()));
                let mut pr: Vec<Option<u64>> = base_vals.iter().map(|x| Some(*x)).collect();
                pr[j] = Some(v + 1);
                at.push(mk(&format!("promise[{j}] = value + 1, others = value"), false, base_vals.clone(), base_bl.clone(), pr, base_c.clone()));
            }
            if v < maxv {
                let mut pr = base_pr.clone();
                pr[j] = Some(maxv);
                at.push(mk(&format!("promise[{j}] = 2^n - 1 > value"), false, base_vals.clone(), base_bl.clone(), pr, base_c.clone()));
            }
            if v < u64::MAX {
                let mut pr = base_pr.clone();
                pr[j] = Some(u64::MAX);
                at.push(mk(&format!("promise[{j}] = u64::MAX"), false, base_vals.clone(), base_bl.clone(), pr, base_c.clone()));
            }
            if v > 0 {
                let mut pr = base_pr.clone();
                pr[j] = Some(v - 1);
                at.push(mk(&format!("promise[{j}] = value - 1"), true, base_vals.clone(), base_bl.clone(), pr, base_c.clone()));
            }
        }
    }
    // errors that cancel across positions of an aggregate
    if m >= 2 {
        let j = k % (m - 1);
        if base_vals[j] != base_vals[j + 1] || base_bl[j] != base_bl[j + 1] {
            let mut vals = base_vals.clone();
            let mut bl = base_bl.clone();
            vals.swap(j, j + 1);
            bl.swap(j, j + 1);
            at.push(mk(&format!("openings {j} and {} supplied in exchanged order", j + 1), false, vals, bl, vec![None; m], base_c.clone()));
        }
        if base_vals[j] < maxv && base_vals[j + 1] > 0 {
            let mut vals = base_vals.clone();
            vals[j] += 1;
            vals[j + 1] -= 1;
            at.push(mk(&format!("value[{j}] + 1 and value[{}] - 1 (sum preserved)", j + 1), false, vals, base_bl.clone(), vec![None; m], base_c.clone()));
        }
        {
            let mut bl = base_bl.clone();
            let t = rand_scalar(&mut rng);
            bl[j][0] += t;
            bl[j + 1][0] -= t;
            at.push(mk(&format!("blinding[{j}] + t and blinding[{}] - t (sum preserved)", j + 1), false, base_vals.clone(), bl, vec![None; m], base_c.clone()));
        }
    }
    // opening count differs from commitment count
    {
        let mut vals = base_vals.clone();
        let mut bl = base_bl.clone();
        vals.push(1);
        bl.push(base_bl[0].clone());
        at.push(mk("one opening too many", false, vals, bl, base_pr.clone(), base_c.clone()));
        if m >= 2 {
            at.push(mk("one opening too few", false, base_vals[..m - 1].to_vec(), base_bl[..m - 1].to_vec(), base_pr.clone(), base_c.clone()));
            at.push(mk("half the openings", false, base_vals[..m / 2].to_vec(), base_bl[..m / 2].to_vec(), base_pr.clone(), base_c.clone()));
        }
    }
    // witness extension degree differs from the statement's
    if cfg.ext < 6 {
        let bl: Vec<Vec<Scalar>> = base_bl.iter().map(|b| { let mut b = b.clone(); b.push(Scalar::ONE); b }).collect();
        at.push(mk("witness has one blinding component more than the statement's degree", false, base_vals.clone(), bl, base_pr.clone(), base_c.clone()));
    }
    if cfg.ext > 1 {
        // fewer components: the commitment to (v; r_0..r_{d-2}) is a legitimate commitment under the same generators,
        // so only the degree rule is broken
        let bl: Vec<Vec<Scalar>> = base_bl.iter().map(|b| b[..cfg.ext - 1].to_vec()).collect();
        let c: Vec<P> = (0..m).map(|j| commit(prm.pc_gens(), base_vals[j], &bl[j])).collect();
        at.push(mk("witness has one blinding component fewer (commitments consistent with it)", false, base_vals.clone(), bl, base_pr.clone(), c));
    }

    for a in at {
        let class: String = a.name.chars().filter(|c| !c.is_ascii_digit()).collect();
        let replay = json!({"tier": if ctx.thorough() {"thorough"} else {"quick"}, "seed": ctx.seed, "leg": leg, "case": id, "descr": {"group": GROUP, "cfg": cfg.json(), "attempt": a.name, "values": a.values, "promises": a.promises}});
        rep.eval(&(GROUP, cfg, a.name.clone(), a.values.clone(), a.promises.clone()));
        rep.count("prove_calls", 1);
        let st = match RangeStatement::init(prm.clone(), a.commitments.clone(), a.promises.clone(), None) {
            Ok(s) => s,
            Err(e) => {
                if a.valid {
                    rep.violation(&format!("C06 valid-statement-refused [{class}]"), &format!("the statement constructor refuses a valid statement (`{}`): {e}", a.name), replay);
                }
                continue;
            },
        };
        let openings: Vec<CommitmentOpening> = (0..a.values.len()).map(|j| CommitmentOpening::new(a.values[j], a.blindings[j].clone())).collect();
        let w = match RangeWitness::init(openings) {
            Ok(w) => w,
            Err(e) => {
                if a.valid {
                    rep.violation(&format!("C06 valid-witness-refused [{class}]"), &format!("the witness constructor refuses a valid witness (`{}`): {e}", a.name), replay);
                }
                continue;
            },
        };
        let t = Context::plain().transcript();
        // the convenience entry point (operating system's generator) must take the same decision
        if (id + a.name.len()) % 3 == 0 {
            rep.count("prove_calls_os_rng", 1);
            match no_panic(|| RangeProof::prove(&mut t.clone(), &st, &w)) {
                Err(p) => rep.violation(&format!("C06 prove-panic [{class}]"), &format!("RangeProof::prove panicked on `{}`: {p}", a.name), replay.clone()),
                Ok(Ok(_)) if !a.valid => rep.violation(
                    &format!("C06 proof-for-invalid-witness [{class}]"),
                    &format!("RangeProof::prove (operating system's generator) emitted a proof for an invalid witness (`{}`)", a.name),
                    replay.clone(),
                ),
                Ok(Err(e)) if a.valid => rep.violation(&format!("C06 valid-witness-refused [{class}]"), &format!("RangeProof::prove refused a valid witness (`{}`): {e}", a.name), replay.clone()),
                _ => {},
            }
        }
        let mut prng = FaultRng::new(RngKind::Healthy(rng.next_u64()));
        let r = no_panic(|| RangeProof::prove_with_rng(&mut t.clone(), &st, &w, &mut prng));
        match r {
            Err(p) => rep.violation(&format!("C06 prove-panic [{class}]"), &format!("prover panicked on `{}`: {p}", a.name), replay),
            Ok(Ok(proof)) => {
                rep.count("proofs_emitted", 1);
                if !a.valid {
                    let verifies = verify_one(&t, &st, &proof, VerifyAction::VerifyOnly).is_ok();
                    rep.violation(
                        &format!("C06 proof-for-invalid-witness [{class}]"),
                        &format!("prover emitted a proof for an invalid witness (`{}`); that proof {} verify", a.name, if verifies { "DOES" } else { "does not" }),
                        replay,
                    );
                    continue;
                }
                // Ok implies verifies (library and reference)
                let rst = ref_statement_of(&prm, a.commitments.len(), &a.commitments, &a.promises);
                let (lv, rv) = verdict_pair(&t, &st, &proof, &rst, &Parts::of(&proof), VerifyAction::VerifyOnly);
                let lv = lv.unwrap_or(false);
                rep.count("emitted_proofs_verified", 1);
                if !lv || !rv {
                    rep.violation(&format!("C06 emitted-proof-does-not-verify [{class}]"), &format!("`{}`: emitted proof verifies: library {lv}, reference {rv}", a.name), replay);
                }
            },
            Ok(Err(e)) => {
                rep.count("refusals", 1);
                if a.valid {
                    rep.violation(&format!("C06 valid-witness-refused [{class}]"), &format!("prover refused a valid witness (`{}`): {e}", a.name), replay);
                }
            },
        }
    }
    // an adaptive prover-side adversary: every scalar the prover draws (from transcript generators, challenges or
    // the caller's generator) before it commits to anything is observed on an honest run, then replayed as candidate
    // weights w of a folded opening check: blinding[a] + w_b and blinding[b] - w_a leave sum_j w_j * blinding[j]
    // unchanged, yet the witness no longer opens commitments a and b
    if m >= 2 {
        let rng_seed = rng.next_u64();
        let t = Context::plain().transcript();
        let run = |bl: &Vec<Vec<Scalar>>| -> Option<Result<Result<RangeProof<P>, ProofError>, String>> {
            let st = RangeStatement::init(prm.clone(), base_c.clone(), vec![None; m], None).ok()?;
            let w = RangeWitness::init((0..m).map(|j| CommitmentOpening::new(base_vals[j], bl[j].clone())).collect()).ok()?;
            let mut prng = FaultRng::new(RngKind::Healthy(rng_seed));
            Some(no_panic(|| RangeProof::prove_with_rng(&mut t.clone(), &st, &w, &mut prng)))
        };
        merlin::probe::arm();
        let honest = run(&base_bl);
        let events = merlin::probe::take();
        if matches!(honest, Some(Ok(Ok(_)))) {
            let mut cand: Vec<Scalar> = vec![];
            let push = |cand: &mut Vec<Scalar>, d: &[u8]| {
                if cand.len() >= 3 * m + 12 {
                    return;
                }
                if d.len() == 64 {
                    let mut b = [0u8; 64];
                    b.copy_from_slice(d);
                    cand.push(Scalar::from_bytes_mod_order_wide(&b));
                } else if d.len() == 32 {
                    let mut b = [0u8; 32];
                    b.copy_from_slice(d);
                    cand.push(Scalar::from_bytes_mod_order(b));
                }
            };
            for e in &events {
                if matches!(e.kind, merlin::probe::Kind::RngFill | merlin::probe::Kind::Challenge) {
                    push(&mut cand, &e.data);
                }
            }
            // the caller's generator, read as 64-byte and as 32-byte draws
            let mut streams: Vec<Vec<Scalar>> = vec![cand];
            for width in [64usize, 32] {
                let mut c = <rand_chacha::ChaCha12Rng as rand_core::SeedableRng>::seed_from_u64(rng_seed);
                let mut v = vec![];
                for _ in 0..m + 4 {
                    let mut b = [0u8; 64];
                    c.fill_bytes(&mut b[..width]);
                    v.push(if width == 64 { Scalar::from_bytes_mod_order_wide(&b) } else { let mut x = [0u8; 32]; x.copy_from_slice(&b[..32]); Scalar::from_bytes_mod_order(x) });
                }
                streams.push(v);
            }
            // fixed public weights a folded check might use: position-dependent constants
            {
                let idx = |f: &dyn Fn(u64) -> Scalar| -> Vec<Scalar> { (0..m as u64 + 4).map(f).collect() };
                streams.push(idx(&|i| Scalar::from(i + 1)));
                streams.push(idx(&|i| Scalar::from(i)));
                streams.push(idx(&|i| Scalar::from((i + 1) * (i + 1))));
                streams.push(idx(&|i| Scalar::from(1u64 << (i % 63))));
                streams.push(idx(&|i| (0..i).fold(Scalar::ONE, |acc, _| acc * Scalar::from(3u64))));
                streams.push(idx(&|i| Scalar::from(m as u64 + 1 - (i % (m as u64 + 1)))));
            }
            let mut tried = 0usize;
            'outer: for (si, c) in streams.iter().enumerate() {
                let offsets = if c.len() >= m { (c.len() - m + 1).min(if si >= 3 { 2 } else if ctx.thorough() { 12 } else { 5 }) } else { 0 };
                for off in 0..offsets {
                    let w = &c[off..off + m];
                    let a = (k + off) % (m - 1);
                    let b = a + 1;
                    if w[a] == Scalar::ZERO && w[b] == Scalar::ZERO {
                        continue;
                    }
                    let mut bl = base_bl.clone();
                    let comp = (k + off) % cfg.ext;
                    bl[a][comp] += w[b];
                    bl[b][comp] -= w[a];
                    // with small integer weights the same shift works on the values
                    let small = |x: &Scalar| -> Option<u64> {
                        let b = x.to_bytes();
                        if b[2..].iter().all(|y| *y == 0) { Some(u64::from(b[0]) | (u64::from(b[1]) << 8)) } else { None }
                    };
                    if let (Some(wa), Some(wb)) = (small(&w[a]), small(&w[b])) {
                        if wa + wb > 0 && base_vals[a].checked_add(wb).map(|x| x <= maxv).unwrap_or(false) && base_vals[b] >= wa {
                            let mut vals = base_vals.clone();
                            vals[a] += wb;
                            vals[b] -= wa;
                            rep.count("adaptive_opening_attacks", 1);
                            rep.count("prove_calls", 1);
                            let stv = RangeStatement::init(prm.clone(), base_c.clone(), vec![None; m], None);
                            let wv = RangeWitness::init((0..m).map(|j| CommitmentOpening::new(vals[j], base_bl[j].clone())).collect());
                            if let (Ok(stv), Ok(wv)) = (stv, wv) {
                                let mut prng = FaultRng::new(RngKind::Healthy(rng_seed));
                                if let Ok(Ok(_)) = no_panic(|| RangeProof::prove_with_rng(&mut t.clone(), &stv, &wv, &mut prng)) {
                                    rep.violation(
                                        "C06 proof-for-invalid-witness [weighted value shift]",
                                        &format!("the prover emitted a proof for a witness whose values [{a}] and [{b}] were shifted by +{wb} / -{wa} (a combination weighted by {wa}, {wb} is preserved); the openings do not match the commitments"),
                                        json!({"tier": if ctx.thorough() {"thorough"} else {"quick"}, "seed": ctx.seed, "leg": leg, "case": id, "descr": {"group": GROUP, "cfg": cfg.json(), "attempt": "weighted value shift", "stream": si, "positions": [a, b]}}),
                                    );
                                    break 'outer;
                                } else {
                                    rep.count("refusals", 1);
                                }
                            }
                        }
                    }
                    tried += 1;
                    rep.count("adaptive_opening_attacks", 1);
                    rep.count("prove_calls", 1);
                    let replay = json!({"tier": if ctx.thorough() {"thorough"} else {"quick"}, "seed": ctx.seed, "leg": leg, "case": id, "descr": {"group": GROUP, "cfg": cfg.json(), "attempt": "adaptive opening attack", "stream": si, "offset": off, "positions": [a, b]}});
                    match run(&bl) {
                        Some(Ok(Ok(_))) => {
                            rep.violation(
                                "C06 proof-for-invalid-witness [adaptive opening attack]",
                                &format!("the prover emitted a proof for a witness whose blindings [{a}] and [{b}] were shifted by scalars the prover itself drew on an earlier run (stream {si}, offset {off}); the openings do not match the commitments"),
                                replay,
                            );
                            break 'outer;
                        },
                        Some(Err(p)) => {
                            rep.violation("C06 prove-panic [adaptive opening attack]", &format!("prover panicked: {p}"), replay);
                            break 'outer;
                        },
                        _ => rep.count("refusals", 1),
                    }
                }
            }
            rep.eval(&(GROUP, cfg, "adaptive", tried));
        }
    }
    rep.sample(GROUP, json!({"cfg": cfg.json(), "values": base_vals, "promises": base_pr}));
}
