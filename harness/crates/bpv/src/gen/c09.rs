// C09 — mask recovery returns the commitment's exact mask, position by position.

pub fn run(ctx: &Ctx, rep: &mut Report) {
    let leg = if <P as Gx>::IS_FM { "fm" } else { "ris" };
    // singles: every bit length x every degree (aggregation 1), several capacities
    let mut id = 0usize;
    let reps = if ctx.thorough() { 400 } else { 8 };
    for (bi, &n) in BITS.iter().enumerate() {
        for ext in 1..=6usize {
            for r in 0..reps {
                id += 1;
                if !ctx.mine(id) {
                    continue;
                }
                let cap = [1usize, 2, 4, 8][(bi + ext + r) % 4];
                single(ctx, rep, id, Cfg::new(n, 1, cap, ext), bi + ext + r, leg);
            }
        }
    }
    // batches mixing seeded, unseeded and aggregated members
    let nb = if ctx.thorough() { 2000 } else { 48 };
    for b in 0..nb {
        id += 1;
        if ctx.mine(id) {
            batch(ctx, rep, id, b, leg);
        }
    }
}

fn single(ctx: &Ctx, rep: &mut Report, id: usize, cfg: Cfg, k: usize, leg: &str) {
    <P as Gx>::case_reset();
    let mut rng = ctx.rng(&format!("c09-{GROUP}"), id as u64);
    let mut case = Case::random(cfg, VALUE_CLASSES[k % 6], PROMISE_CLASSES[k % 5], true, &mut rng);
    // corner seeds and masks: the zero seed, the seed one, an all-zero blinding vector (mask of zeros)
    match id % 11 {
        0 => {
            case.seed = Some(Scalar::ZERO);
            rep.count("zero_seed_cases", 1);
        },
        1 => case.seed = Some(Scalar::ONE),
        2 => {
            case.blindings[0] = vec![Scalar::ZERO; cfg.ext];
            case.commitments[0] = commit(case.params().pc_gens(), case.values[0], &case.blindings[0]);
            rep.count("zero_mask_cases", 1);
        },
        _ => {},
    }
    let replay = json!({"tier": if ctx.thorough() {"thorough"} else {"quick"}, "seed": ctx.seed, "leg": leg, "case": id, "descr": case.json(), "corner": id % 11});
    let kind = rng_kinds(rng.next_u64())[k % 7].clone();
    let mut prng = FaultRng::new(kind.clone());
    let Ok(proof) = case.prove(&mut prng) else {
        rep.note("C09: prover refused a valid case (see C01)".into());
        return;
    };
    let truth = case.blindings[0].clone();
    let sig = format!("{GROUP} ext={}", cfg.ext);
    for action in ACTIONS {
        rep.eval(&(GROUP, case.key(), format!("{kind:?}"), action_name(action)));
        rep.count("recoveries", 1);
        let r = no_panic(|| verify_one(&case.transcript(), &case.statement(), &proof, action));
        match r {
            Err(p) => rep.violation(&format!("C09 panic {sig}"), &format!("verify_batch panicked: {p}"), replay.clone()),
            Ok(Err(e)) => rep.violation(&format!("C09 rejected {sig} {}", action_name(action)), &format!("honest seeded proof rejected in {}: {e}", action_name(action)), replay.clone()),
            Ok(Ok(mask)) => {
                let got = mask_vec(&mask);
                let want = if action == VerifyAction::VerifyOnly { None } else { Some(truth.clone()) };
                rep.count("mask_components_compared", cfg.ext as u64);
                if got != want {
                    let detail = match (&got, &want) {
                        (Some(g), Some(w)) if g.len() == w.len() => {
                            let wrong: Vec<usize> = (0..g.len()).filter(|i| g[*i] != w[*i]).collect();
                            let permuted = { let mut a: Vec<[u8; 32]> = g.iter().map(|s| s.to_bytes()).collect(); let mut b: Vec<[u8; 32]> = w.iter().map(|s| s.to_bytes()).collect(); a.sort(); b.sort(); a == b };
                            format!("components {wrong:?} differ{}", if permuted { " (the right values in the wrong order)" } else { "" })
                        },
                        (Some(g), Some(w)) => format!("{} components returned, {} expected", g.len(), w.len()),
                        (None, Some(_)) => "no mask returned".to_string(),
                        (Some(_), None) => "a mask was returned in verify-only mode".to_string(),
                        _ => String::new(),
                    };
                    rep.violation(&format!("C09 wrong-mask {sig} {}", action_name(action)), &format!("recovered mask is not the commitment's blinding vector: {detail}"), replay.clone());
                }
            },
        }
    }
    // the owner re-creates the statement over parameters of another capacity: the same mask must come back
    for cap2 in [cfg.cap * 2, cfg.cap * 4, 1] {
        if cap2 == cfg.cap || cap2 > 16 || cap2 < cfg.m {
            continue;
        }
        let p2 = params_uncached(cfg.n, cap2, cfg.ext);
        let Ok(st2) = RangeStatement::init(p2, case.commitments.clone(), case.promises.clone(), case.seed) else {
            rep.violation(&format!("C09 statement-refused {sig}"), &format!("a seeded single-commitment statement cannot be built over capacity {cap2}"), replay.clone());
            continue;
        };
        for action in [VerifyAction::RecoverAndVerify, VerifyAction::RecoverOnly] {
            rep.count("cross_capacity_recoveries", 1);
            match no_panic(|| verify_one(&case.transcript(), &st2, &proof, action)) {
                Ok(Ok(mask)) => {
                    if mask_vec(&mask) != Some(truth.clone()) {
                        rep.violation(&format!("C09 wrong-mask other-capacity {sig}"), &format!("proved with capacity {}, recovered with capacity {cap2}: the mask returned is not the commitment's blinding vector", cfg.cap), replay.clone());
                    }
                },
                Ok(Err(e)) => rep.violation(&format!("C09 rejected other-capacity {sig}"), &format!("proved with capacity {}, rejected with capacity {cap2}: {e}", cfg.cap), replay.clone()),
                Err(p) => rep.violation(&format!("C09 panic {sig}"), &format!("verify_batch panicked: {p}"), replay.clone()),
            }
        }
    }
    // a statement without the seed yields no mask
    for action in ACTIONS {
        rep.count("recoveries", 1);
        if let Ok(Ok(mask)) = no_panic(|| verify_one(&case.transcript(), &case.statement_public(), &proof, action)) {
            if mask.is_some() {
                rep.violation(&format!("C09 mask-without-seed {sig}"), "a mask was returned for a statement without a seed", replay.clone());
            }
        }
    }
    rep.sample(GROUP, json!({"case": case.json(), "rng": format!("{kind:?}")}));
}

fn batch(ctx: &Ctx, rep: &mut Report, id: usize, b: usize, leg: &str) {
    <P as Gx>::case_reset();
    clear_params_cache();
    let mut rng = ctx.rng(&format!("c09-batch-{GROUP}"), id as u64);
    let n = [2usize, 4, 8, 16][b % 4];
    let ext = 1 + (b % 6);
    let size = if ctx.thorough() { [3usize, 7, 20, 257, 300, 520, 600][b % 7] } else { [3usize, 7, 20, 260][b % 4] };
    // a pool of members, then a random arrangement
    let mut pool: Vec<(Case, Proof)> = vec![];
    let shared_seed = rand_scalar(&mut rng);
    for i in 0..10 {
        let m = [1usize, 1, 2, 1, 4, 1][i % 6];
        let m = if n * m > 64 { 1 } else { m };
        let cfg = Cfg::new(n, m, (m << (i % 2)).min(8), ext);
        let seeded = i % 3 != 1;
        let mut case = Case::random(cfg, VALUE_CLASSES[i % 6], PROMISE_CLASSES[i % 5], seeded, &mut rng);
        // several different members share one recovery seed (one wallet key for many outputs)
        if case.seed.is_some() && i % 2 == 0 {
            case.seed = Some(shared_seed);
        }
        let mut prng = FaultRng::new(RngKind::Healthy(rng.next_u64()));
        if let Ok(p) = case.prove(&mut prng) {
            pool.push((case, p));
        }
    }
    if pool.is_empty() {
        return;
    }
    let order: Vec<usize> = (0..size).map(|_| (rng.next_u32() as usize) % pool.len()).collect();
    let ts: Vec<Transcript> = order.iter().map(|i| pool[*i].0.transcript()).collect();
    let sts: Vec<Stmt> = order.iter().map(|i| pool[*i].0.statement()).collect();
    let proofs: Vec<Proof> = order.iter().map(|i| pool[*i].1.clone()).collect();
    let replay = json!({"tier": if ctx.thorough() {"thorough"} else {"quick"}, "seed": ctx.seed, "leg": leg, "case": id, "descr": {"group": GROUP, "batch": size, "bits": n, "ext": ext}});
    for action in ACTIONS {
        rep.eval(&(GROUP, "batch", b, size, action_name(action)));
        rep.count("batch_recoveries", 1);
        match no_panic(|| verify_many(&ts, &sts, &proofs, action)) {
            Err(p) => rep.violation("C09 batch-panic", &format!("verify_batch panicked: {p}"), replay.clone()),
            Ok(Err(e)) => rep.violation(&format!("C09 batch-rejected size{}256", if size > 256 { ">" } else { "<=" }), &format!("honest batch of {size} rejected: {e}"), replay.clone()),
            Ok(Ok(masks)) => {
                if masks.len() != size {
                    rep.violation(&format!("C09 batch-result-length size{}256", if size > 256 { ">" } else { "<=" }), &format!("{} results for {size} members", masks.len()), replay.clone());
                    continue;
                }
                for (pos, (i, got)) in order.iter().zip(masks.iter()).enumerate() {
                    let c = &pool[*i].0;
                    let want = if action != VerifyAction::VerifyOnly && c.seed.is_some() { Some(c.blindings[0].clone()) } else { None };
                    rep.count("batch_slots_compared", 1);
                    if mask_vec(got) != want {
                        rep.violation(
                            &format!("C09 batch-slot-wrong {} size{}256", action_name(action), if size > 256 { ">" } else { "<=" }),
                            &format!("batch of {size}: result {pos} is not the mask of member {pos} ({}, aggregation {})", if c.seed.is_some() { "seeded" } else { "unseeded" }, c.cfg.m),
                            replay.clone(),
                        );
                        break;
                    }
                }
            },
        }
    }
    rep.sample(&format!("{GROUP}-batch"), json!({"batch": size, "bits": n, "ext": ext}));
}
