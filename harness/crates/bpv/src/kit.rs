// Group-generic test kit. This file is `include!`d once per group with `type P` defined by the
// including module (`crate::onfm` with P = FmPoint, `crate::onris` with P = RistrettoPoint), so that the
// library's generic code is exercised unchanged over both groups without spelling its trait bounds.

#[allow(unused_imports)]
use std::{cell::RefCell, collections::HashMap, convert::TryFrom, panic::AssertUnwindSafe};

#[allow(unused_imports)]
use curve25519_dalek::{scalar::Scalar, traits::Identity};
#[allow(unused_imports)]
use merlin::Transcript;
#[allow(unused_imports)]
use rand_core::{CryptoRng, RngCore};
#[allow(unused_imports)]
use serde_json::{json, Value};
#[allow(unused_imports)]
use tari_bulletproofs_plus::{
    commitment_opening::CommitmentOpening,
    errors::ProofError,
    extended_mask::ExtendedMask,
    generators::pedersen_gens::ExtensionDegree,
    range_parameters::RangeParameters,
    range_proof::{RangeProof, VerifyAction},
    range_statement::RangeStatement,
    range_witness::RangeWitness,
    traits::{Compressable, Decompressable, FixedBytesRepr},
    PedersenGens,
};

#[allow(unused_imports)]
use crate::{
    common::*,
    gx::Gx,
    refbp::{self, RefGroup, RefProof, RefStatement, RefWitness},
};

pub type Params = RangeParameters<P>;
pub type Stmt = RangeStatement<P>;
pub type Proof = RangeProof<P>;
pub type Comp = <P as Compressable>::Compressed;

pub const GROUP: &str = <P as Gx>::NAME;

pub const ACTIONS: [VerifyAction; 3] = [VerifyAction::VerifyOnly, VerifyAction::RecoverAndVerify, VerifyAction::RecoverOnly];

pub fn action_name(a: VerifyAction) -> &'static str {
    match a {
        VerifyAction::VerifyOnly => "VerifyOnly",
        VerifyAction::RecoverAndVerify => "RecoverAndVerify",
        VerifyAction::RecoverOnly => "RecoverOnly",
    }
}

thread_local! {
    static PARAMS: RefCell<HashMap<(usize, usize, usize), Params>> = RefCell::new(HashMap::new());
}

/// Parameters for (bits, capacity, extension degree), cached per thread
pub fn params(n: usize, cap: usize, ext: usize) -> Params {
    PARAMS.with(|c| {
        let mut c = c.borrow_mut();
        if c.len() > 64 {
            c.clear();
        }
        c.entry((n, cap, ext))
            .or_insert_with(|| RangeParameters::init(n, cap, <P as Gx>::pedersen(ext)).expect("valid parameters"))
            .clone()
    })
}

pub fn params_uncached(n: usize, cap: usize, ext: usize) -> Params {
    RangeParameters::init(n, cap, <P as Gx>::pedersen(ext)).expect("valid parameters")
}

pub fn clear_params_cache() {
    PARAMS.with(|c| c.borrow_mut().clear());
}

/// Transcript contexts: a static label plus optional extra messages appended before the protocol starts
pub const LABELS: [&[u8]; 4] = [b"bpv-ctx-0", b"bpv-ctx-1", b"", b"Tari BP+ context with a long label ........................................"];

#[derive(Clone, Debug, PartialEq, Eq, Hash)]
pub struct Context {
    pub label: usize,
    pub extra: Vec<Vec<u8>>,
}

impl Context {
    pub fn plain() -> Self {
        Context { label: 0, extra: vec![] }
    }

    pub fn random(rng: &mut impl RngCore) -> Self {
        let label = (rng.next_u32() % LABELS.len() as u32) as usize;
        let k = rng.next_u32() % 3;
        let extra = (0..k)
            .map(|_| {
                let len = (rng.next_u32() % 40) as usize;
                let mut b = vec![0u8; len];
                rng.fill_bytes(&mut b);
                b
            })
            .collect();
        Context { label, extra }
    }

    pub fn transcript(&self) -> Transcript {
        let mut t = Transcript::new(LABELS[self.label]);
        for m in &self.extra {
            t.append_message(b"bpv-extra", m);
        }
        t
    }

    pub fn json(&self) -> Value {
        json!({"label": String::from_utf8_lossy(LABELS[self.label]), "extra": self.extra.iter().map(|m| hex(m)).collect::<Vec<_>>()})
    }
}

/// A complete proving instance; the harness knows every secret
#[derive(Clone, Debug)]
pub struct Case {
    pub cfg: Cfg,
    pub values: Vec<u64>,
    pub promises: Vec<Option<u64>>,
    pub blindings: Vec<Vec<Scalar>>,
    pub seed: Option<Scalar>,
    pub ctx: Context,
    pub commitments: Vec<P>,
}

pub fn commit(pc: &PedersenGens<P>, v: u64, bl: &[Scalar]) -> P {
    pc.commit(&Scalar::from(v), bl).expect("commit")
}

impl Case {
    /// Build a valid instance. Blinding components are pairwise distinct (random).
    pub fn build(
        cfg: Cfg,
        values: Vec<u64>,
        promises: Vec<Option<u64>>,
        seed: Option<Scalar>,
        ctx: Context,
        rng: &mut impl RngCore,
    ) -> Case {
        let p = params(cfg.n, cfg.cap, cfg.ext);
        let blindings: Vec<Vec<Scalar>> = (0..cfg.m).map(|_| (0..cfg.ext).map(|_| rand_scalar(rng)).collect()).collect();
        let commitments = (0..cfg.m).map(|j| commit(p.pc_gens(), values[j], &blindings[j])).collect();
        Case { cfg, values, promises, blindings, seed, ctx, commitments }
    }

    pub fn random(cfg: Cfg, vc: ValueClass, pc: PromiseClass, seeded: bool, rng: &mut impl RngCore) -> Case {
        let values: Vec<u64> = (0..cfg.m).map(|_| pick_value(vc, cfg.n, rng)).collect();
        let promises: Vec<Option<u64>> = (0..cfg.m).map(|j| pick_promise(pc, j, values[j], rng)).collect();
        let seed = if seeded && cfg.m == 1 { Some(rand_scalar(rng)) } else { None };
        let ctx = Context::random(rng);
        Case::build(cfg, values, promises, seed, ctx, rng)
    }

    pub fn params(&self) -> Params {
        params(self.cfg.n, self.cfg.cap, self.cfg.ext)
    }

    pub fn statement(&self) -> Stmt {
        self.statement_with(&self.params(), &self.promises, self.seed)
    }

    pub fn statement_public(&self) -> Stmt {
        self.statement_with(&self.params(), &self.promises, None)
    }

    pub fn statement_with(&self, p: &Params, promises: &[Option<u64>], seed: Option<Scalar>) -> Stmt {
        RangeStatement::init(p.clone(), self.commitments.clone(), promises.to_vec(), seed).expect("valid statement")
    }

    pub fn witness(&self) -> RangeWitness {
        RangeWitness::init(
            (0..self.cfg.m).map(|j| CommitmentOpening::new(self.values[j], self.blindings[j].clone())).collect(),
        )
        .expect("valid witness")
    }

    pub fn transcript(&self) -> Transcript {
        self.ctx.transcript()
    }

    pub fn prove(&self, rng: &mut (impl RngCore + CryptoRng)) -> Result<Proof, ProofError> {
        RangeProof::prove_with_rng(&mut self.transcript(), &self.statement(), &self.witness(), rng)
    }

    pub fn ref_statement(&self) -> RefStatement<P> {
        ref_statement_of(&self.params(), self.cfg.m, &self.commitments, &self.promises)
    }

    pub fn ref_witness(&self) -> RefWitness {
        RefWitness { values: self.values.clone(), blindings: self.blindings.clone() }
    }

    pub fn json(&self) -> Value {
        json!({
            "group": GROUP,
            "cfg": self.cfg.json(),
            "values": self.values,
            "promises": self.promises,
            "seeded": self.seed.is_some(),
            "context": self.ctx.json(),
        })
    }

    pub fn key(&self) -> (Cfg, Vec<u64>, Vec<Option<u64>>, bool, Context) {
        (self.cfg, self.values.clone(), self.promises.clone(), self.seed.is_some(), self.ctx.clone())
    }
}

/// Reference statement using the generators the *library object* exposes (what the verifier will use)
pub fn ref_statement_of(p: &Params, m: usize, commitments: &[P], promises: &[Option<u64>]) -> RefStatement<P> {
    let n = p.bit_length();
    RefStatement {
        h: p.h_base().clone(),
        g: p.g_bases().to_vec(),
        gv: p.gi_base_iter().take(n * m).cloned().collect(),
        hv: p.hi_base_iter().take(n * m).cloned().collect(),
        n,
        commitments: commitments.to_vec(),
        promises: promises.to_vec(),
    }
}

/// Verify one triple with a fresh copy of the transcript
pub fn verify_one(t: &Transcript, st: &Stmt, proof: &Proof, action: VerifyAction) -> Result<Option<ExtendedMask>, ProofError> {
    let mut r = RangeProof::verify_batch(&mut [t.clone()], std::slice::from_ref(st), std::slice::from_ref(proof), action)?;
    if r.len() != 1 {
        return Err(ProofError::InvalidLength(format!("harness: singleton batch returned {} results", r.len())));
    }
    Ok(r.pop().unwrap())
}

pub fn verify_many(
    ts: &[Transcript],
    sts: &[Stmt],
    proofs: &[Proof],
    action: VerifyAction,
) -> Result<Vec<Option<ExtendedMask>>, ProofError> {
    let mut ts: Vec<Transcript> = ts.to_vec();
    RangeProof::verify_batch(&mut ts, sts, proofs, action)
}

/// Run `f` and turn a panic into `Err(message)`
pub fn no_panic<T>(f: impl FnOnce() -> T) -> Result<T, String> {
    match std::panic::catch_unwind(AssertUnwindSafe(f)) {
        Ok(v) => Ok(v),
        Err(e) => Err(if let Some(s) = e.downcast_ref::<String>() {
            s.clone()
        } else if let Some(s) = e.downcast_ref::<&str>() {
            s.to_string()
        } else {
            "panic".to_string()
        }),
    }
}

// ------------------------------------------------------------------------------------------------
// Proofs as editable element lists (built and re-parsed through the public byte codec only)
// ------------------------------------------------------------------------------------------------

/// The elements of a proof in wire order
#[derive(Clone, Debug, PartialEq)]
pub struct Parts {
    pub ext_byte: u8,
    pub d1: Vec<[u8; 32]>,
    pub a: [u8; 32],
    pub a1: [u8; 32],
    pub b: [u8; 32],
    pub r1: [u8; 32],
    pub s1: [u8; 32],
    pub lr: Vec<([u8; 32], [u8; 32])>,
}

fn el(b: &[u8], i: usize) -> [u8; 32] {
    let mut a = [0u8; 32];
    a.copy_from_slice(&b[1 + 32 * i..33 + 32 * i]);
    a
}

impl Parts {
    /// Split wire bytes (assumes the layout; used on bytes the library itself produced)
    pub fn from_bytes(b: &[u8]) -> Parts {
        let ext = b[0] as usize;
        let n_el = (b.len() - 1) / 32;
        let rounds = (n_el - 5 - ext) / 2;
        Parts {
            ext_byte: b[0],
            d1: (0..ext).map(|i| el(b, i)).collect(),
            a: el(b, ext),
            a1: el(b, ext + 1),
            b: el(b, ext + 2),
            r1: el(b, ext + 3),
            s1: el(b, ext + 4),
            lr: (0..rounds).map(|j| (el(b, ext + 5 + 2 * j), el(b, ext + 6 + 2 * j))).collect(),
        }
    }

    pub fn of(p: &Proof) -> Parts {
        Parts::from_bytes(&p.to_bytes())
    }

    pub fn to_bytes(&self) -> Vec<u8> {
        let mut b = vec![self.ext_byte];
        for x in &self.d1 {
            b.extend_from_slice(x);
        }
        for x in [&self.a, &self.a1, &self.b, &self.r1, &self.s1] {
            b.extend_from_slice(x);
        }
        for (l, r) in &self.lr {
            b.extend_from_slice(l);
            b.extend_from_slice(r);
        }
        b
    }

    pub fn to_proof(&self) -> Result<Proof, ProofError> {
        Proof::from_bytes(&self.to_bytes())
    }

    pub fn from_ref(p: &RefProof<P>) -> Parts {
        Parts::from_bytes(&p.to_bytes())
    }

    /// Decode into a reference proof (None if a point does not decode or a scalar is not canonical)
    pub fn to_ref(&self) -> Option<RefProof<P>> {
        let pt = |b: &[u8; 32]| Comp::from_fixed_bytes(*b).decompress();
        let sc = |b: &[u8; 32]| Option::<Scalar>::from(Scalar::from_canonical_bytes(*b));
        Some(RefProof {
            a: pt(&self.a)?,
            a1: pt(&self.a1)?,
            b: pt(&self.b)?,
            r1: sc(&self.r1)?,
            s1: sc(&self.s1)?,
            d1: self.d1.iter().map(sc).collect::<Option<Vec<_>>>()?,
            l: self.lr.iter().map(|(l, _)| pt(l)).collect::<Option<Vec<_>>>()?,
            r: self.lr.iter().map(|(_, r)| pt(r)).collect::<Option<Vec<_>>>()?,
        })
    }
}

pub fn enc(p: &P) -> [u8; 32] {
    *p.compress().as_fixed_bytes()
}

pub fn mask_vec(m: &Option<ExtendedMask>) -> Option<Vec<Scalar>> {
    m.as_ref().and_then(|m| m.blindings().ok())
}

pub fn ext_of(d: usize) -> ExtensionDegree {
    ExtensionDegree::try_from(d).expect("degree")
}
