// Group-generic test kit. This file is `include!`d once per group with `type P` defined by the
// including module (`crate::onfm` with P = FmPoint, `crate::onris` with P = RistrettoPoint), so that the
// library's generic code is exercised unchanged over both groups without spelling its trait bounds.

#[allow(unused_imports)]
use std::{cell::RefCell, collections::HashMap, convert::TryFrom, panic::AssertUnwindSafe};

#[allow(unused_imports)]
use curve25519_dalek::{scalar::Scalar, traits::Identity};
#[allow(unused_imports)]
use merlin::Transcript;
#[allow(unused_imports)]
use rand_core::{CryptoRng, RngCore};
#[allow(unused_imports)]
use serde_json::{json, Value};
#[allow(unused_imports)]
use tari_bulletproofs_plus::{
    commitment_opening::CommitmentOpening,
    errors::ProofError,
    extended_mask::ExtendedMask,
    generators::pedersen_gens::ExtensionDegree,
    range_parameters::RangeParameters,
    range_proof::{RangeProof, VerifyAction},
    range_statement::RangeStatement,
    range_witness::RangeWitness,
    traits::{Compressable, Decompressable, FixedBytesRepr},
    PedersenGens,
};

#[allow(unused_imports)]
use crate::{
    common::*,
    gx::Gx,
    refbp::{self, RefGroup, RefProof, RefStatement, RefWitness},
};

pub type Params = RangeParameters<P>;
pub type Stmt = RangeStatement<P>;
pub type Proof = RangeProof<P>;
pub type Comp = <P as Compressable>::Compressed;

pub const GROUP: &str = <P as Gx>::NAME;

pub const ACTIONS: [VerifyAction; 3] = [VerifyAction::VerifyOnly, VerifyAction::RecoverAndVerify, VerifyAction::RecoverOnly];

pub fn action_name(a: VerifyAction) -> &'static str {
    match a {
        VerifyAction::VerifyOnly => "VerifyOnly",
        VerifyAction::RecoverAndVerify => "RecoverAndVerify",
        VerifyAction::RecoverOnly => "RecoverOnly",
    }
}

thread_local! {
    static PARAMS: RefCell<HashMap<(usize, usize, usize), Params>> = RefCell::new(HashMap::new());
}

/// Parameters for (bits, capacity, extension degree), cached per thread
pub fn params(n: usize, cap: usize, ext: usize) -> Params {
    PARAMS.with(|c| {
        let mut c = c.borrow_mut();
        if c.len() > 64 {
            c.clear();
        }
        c.entry((n, cap, ext))
            .or_insert_with(|| RangeParameters::init(n, cap, <P as Gx>::pedersen(ext)).expect("valid parameters"))
            .clone()
    })
}

pub fn params_uncached(n: usize, cap: usize, ext: usize) -> Params {
    RangeParameters::init(n, cap, <P as Gx>::pedersen(ext)).expect("valid parameters")
}

pub fn clear_params_cache() {
    PARAMS.with(|c| c.borrow_mut().clear());
}

/// Transcript contexts: a static label plus optional extra messages appended before the protocol starts
pub const LABELS: [&[u8]; 4] = [b"bpv-ctx-0", b"bpv-ctx-1", b"", b"Tari BP+ context with a long label ........................................"];

#[derive(Clone, Debug, PartialEq, Eq, Hash)]
pub struct Context {
    pub label: usize,
    pub extra: Vec<Vec<u8>>,
}

impl Context {
    pub fn plain() -> Self {
        Context { label: 0, extra: vec![] }
    }

    pub fn random(rng: &mut impl RngCore) -> Self {
        let label = (rng.next_u32() % LABELS.len() as u32) as usize;
        let k = rng.next_u32() % 3;
        let extra = (0..k)
            .map(|_| {
                let len = (rng.next_u32() % 40) as usize;
                let mut b = vec![0u8; len];
                rng.fill_bytes(&mut b);
                b
            })
            .collect();
        Context { label, extra }
    }

    pub fn transcript(&self) -> Transcript {
        let mut t = Transcript::new(LABELS[self.label]);
        for m in &self.extra {
            t.append_message(b"bpv-extra", m);
        }
        t
    }

    pub fn json(&self) -> Value {
        json!({"label": String::from_utf8_lossy(LABELS[self.label]), "extra": self.extra.iter().map(|m| hex(m)).collect::<Vec<_>>()})
    }
}

/// A complete proving instance; the harness knows every secret
#[derive(Clone, Debug)]
pub struct Case {
    pub cfg: Cfg,
    pub values: Vec<u64>,
    pub promises: Vec<Option<u64>>,
    pub blindings: Vec<Vec<Scalar>>,
    pub seed: Option<Scalar>,
    pub ctx: Context,
    pub commitments: Vec<P>,
}

/// v*H + sum r_k*G_k computed by the harness itself (not by the library's `commit`, which is under test in C17)
pub fn commit(pc: &PedersenGens<P>, v: u64, bl: &[Scalar]) -> P {
    let mut c = RefGroup::times(&pc.h_base, &Scalar::from(v));
    for (k, r) in bl.iter().enumerate() {
        c = RefGroup::plus(&c, &RefGroup::times(&pc.g_base_vec[k], r));
    }
    c
}

impl Case {
    /// Build a valid instance. Blinding components are pairwise distinct (random).
    pub fn build(
        cfg: Cfg,
        values: Vec<u64>,
        promises: Vec<Option<u64>>,
        seed: Option<Scalar>,
        ctx: Context,
        rng: &mut impl RngCore,
    ) -> Case {
        let p = params(cfg.n, cfg.cap, cfg.ext);
        let blindings: Vec<Vec<Scalar>> = (0..cfg.m).map(|_| (0..cfg.ext).map(|_| rand_scalar(rng)).collect()).collect();
        let commitments = (0..cfg.m).map(|j| commit(p.pc_gens(), values[j], &blindings[j])).collect();
        Case { cfg, values, promises, blindings, seed, ctx, commitments }
    }

    pub fn random(cfg: Cfg, vc: ValueClass, pc: PromiseClass, seeded: bool, rng: &mut impl RngCore) -> Case {
        let values: Vec<u64> = (0..cfg.m).map(|_| pick_value(vc, cfg.n, rng)).collect();
        let promises: Vec<Option<u64>> = (0..cfg.m).map(|j| pick_promise(pc, j, values[j], rng)).collect();
        let seed = if seeded && cfg.m == 1 { Some(rand_scalar(rng)) } else { None };
        let ctx = Context::random(rng);
        let mut case = Case::build(cfg, values, promises, seed, ctx, rng);
        // degenerate but valid data inside aggregates: an identity commitment (value 0, all-zero mask - the natural
        // padding member) at some position, or the same commitment at two positions
        if cfg.m >= 2 {
            match rng.next_u32() % 8 {
                0 => case.plant_identity((rng.next_u32() as usize) % cfg.m),
                1 => {
                    let a = (rng.next_u32() as usize) % cfg.m;
                    let b = (a + 1 + (rng.next_u32() as usize) % (cfg.m - 1)) % cfg.m;
                    case.values[b] = case.values[a];
                    case.blindings[b] = case.blindings[a].clone();
                    case.promises[b] = pick_promise(pc, b, case.values[b], rng);
                    case.commitments[b] = case.commitments[a].clone();
                },
                _ => {},
            }
        }
        case
    }

    /// Make position j the opening (0; 0,...,0): its commitment is the identity
    pub fn plant_identity(&mut self, j: usize) {
        self.values[j] = 0;
        self.blindings[j] = vec![Scalar::ZERO; self.cfg.ext];
        self.promises[j] = if self.promises[j].is_some() { Some(0) } else { None };
        self.commitments[j] = P::identity();
    }

    pub fn params(&self) -> Params {
        params(self.cfg.n, self.cfg.cap, self.cfg.ext)
    }

    pub fn statement(&self) -> Stmt {
        self.statement_with(&self.params(), &self.promises, self.seed)
    }

    pub fn statement_public(&self) -> Stmt {
        self.statement_with(&self.params(), &self.promises, None)
    }

    pub fn statement_with(&self, p: &Params, promises: &[Option<u64>], seed: Option<Scalar>) -> Stmt {
        RangeStatement::init(p.clone(), self.commitments.clone(), promises.to_vec(), seed).expect("valid statement")
    }

    pub fn witness(&self) -> RangeWitness {
        RangeWitness::init(
            (0..self.cfg.m).map(|j| CommitmentOpening::new(self.values[j], self.blindings[j].clone())).collect(),
        )
        .expect("valid witness")
    }

    pub fn try_witness(&self) -> Result<RangeWitness, ProofError> {
        RangeWitness::init((0..self.cfg.m).map(|j| CommitmentOpening::new(self.values[j], self.blindings[j].clone())).collect())
    }

    pub fn transcript(&self) -> Transcript {
        self.ctx.transcript()
    }

    pub fn prove(&self, rng: &mut (impl RngCore + CryptoRng)) -> Result<Proof, ProofError> {
        RangeProof::prove_with_rng(&mut self.transcript(), &self.statement(), &self.try_witness()?, rng)
    }

    pub fn ref_statement(&self) -> RefStatement<P> {
        ref_statement_of(&self.params(), self.cfg.m, &self.commitments, &self.promises)
    }

    pub fn ref_witness(&self) -> RefWitness {
        RefWitness { values: self.values.clone(), blindings: self.blindings.clone() }
    }

    pub fn json(&self) -> Value {
        json!({
            "group": GROUP,
            "cfg": self.cfg.json(),
            "values": self.values,
            "promises": self.promises,
            "seeded": self.seed.is_some(),
            "context": self.ctx.json(),
        })
    }

    pub fn key(&self) -> (Cfg, Vec<u64>, Vec<Option<u64>>, bool, Context) {
        (self.cfg, self.values.clone(), self.promises.clone(), self.seed.is_some(), self.ctx.clone())
    }
}

/// Reference statement using the generators the *library object* exposes (what the verifier will use)
pub fn ref_statement_of(p: &Params, m: usize, commitments: &[P], promises: &[Option<u64>]) -> RefStatement<P> {
    let n = p.bit_length();
    RefStatement {
        h: p.h_base().clone(),
        g: p.g_bases().to_vec(),
        gv: p.gi_base_iter().take(n * m).cloned().collect(),
        hv: p.hi_base_iter().take(n * m).cloned().collect(),
        n,
        commitments: commitments.to_vec(),
        promises: promises.to_vec(),
    }
}

thread_local! {
    static DOC_GENS: RefCell<HashMap<(usize, usize), (Vec<P>, Vec<P>)>> = RefCell::new(HashMap::new());
}

/// Reference statement over the vector generators *as the documentation derives them* (independent of what the
/// library object holds): used where the published relation itself is the oracle (C02)
pub fn ref_statement_documented(p: &Params, m: usize, commitments: &[P], promises: &[Option<u64>]) -> RefStatement<P> {
    let n = p.bit_length();
    let (gv, hv) = DOC_GENS.with(|c| {
        let mut c = c.borrow_mut();
        if c.len() > 32 {
            c.clear();
        }
        c.entry((n, m)).or_insert_with(|| refbp::ref_vector_gens::<P>(n, m)).clone()
    });
    RefStatement { h: p.h_base().clone(), g: p.g_bases().to_vec(), gv, hv, n, commitments: commitments.to_vec(), promises: promises.to_vec() }
}

/// Verify one triple with a fresh copy of the transcript
pub fn verify_one(t: &Transcript, st: &Stmt, proof: &Proof, action: VerifyAction) -> Result<Option<ExtendedMask>, ProofError> {
    let mut r = RangeProof::verify_batch(&mut [t.clone()], std::slice::from_ref(st), std::slice::from_ref(proof), action)?;
    if r.len() != 1 {
        return Err(ProofError::InvalidLength(format!("harness: singleton batch returned {} results", r.len())));
    }
    Ok(r.pop().unwrap())
}

pub fn verify_many(
    ts: &[Transcript],
    sts: &[Stmt],
    proofs: &[Proof],
    action: VerifyAction,
) -> Result<Vec<Option<ExtendedMask>>, ProofError> {
    let mut ts: Vec<Transcript> = ts.to_vec();
    RangeProof::verify_batch(&mut ts, sts, proofs, action)
}

/// Run `f` and turn a panic into `Err(message)`
pub fn no_panic<T>(f: impl FnOnce() -> T) -> Result<T, String> {
    match std::panic::catch_unwind(AssertUnwindSafe(f)) {
        Ok(v) => Ok(v),
        Err(e) => Err(if let Some(s) = e.downcast_ref::<String>() {
            s.clone()
        } else if let Some(s) = e.downcast_ref::<&str>() {
            s.to_string()
        } else {
            "panic".to_string()
        }),
    }
}

// ------------------------------------------------------------------------------------------------
// Proofs as editable element lists (built and re-parsed through the public byte codec only)
// ------------------------------------------------------------------------------------------------

/// The elements of a proof in wire order
#[derive(Clone, Debug, PartialEq)]
pub struct Parts {
    pub ext_byte: u8,
    pub d1: Vec<[u8; 32]>,
    pub a: [u8; 32],
    pub a1: [u8; 32],
    pub b: [u8; 32],
    pub r1: [u8; 32],
    pub s1: [u8; 32],
    pub lr: Vec<([u8; 32], [u8; 32])>,
}

fn el(b: &[u8], i: usize) -> [u8; 32] {
    let mut a = [0u8; 32];
    a.copy_from_slice(&b[1 + 32 * i..33 + 32 * i]);
    a
}

impl Parts {
    /// Split wire bytes (assumes the layout; used on bytes the library itself produced)
    pub fn from_bytes(b: &[u8]) -> Parts {
        let ext = b[0] as usize;
        let n_el = (b.len() - 1) / 32;
        let rounds = (n_el - 5 - ext) / 2;
        Parts {
            ext_byte: b[0],
            d1: (0..ext).map(|i| el(b, i)).collect(),
            a: el(b, ext),
            a1: el(b, ext + 1),
            b: el(b, ext + 2),
            r1: el(b, ext + 3),
            s1: el(b, ext + 4),
            lr: (0..rounds).map(|j| (el(b, ext + 5 + 2 * j), el(b, ext + 6 + 2 * j))).collect(),
        }
    }

    pub fn of(p: &Proof) -> Parts {
        Parts::from_bytes(&p.to_bytes())
    }

    pub fn to_bytes(&self) -> Vec<u8> {
        let mut b = vec![self.ext_byte];
        for x in &self.d1 {
            b.extend_from_slice(x);
        }
        for x in [&self.a, &self.a1, &self.b, &self.r1, &self.s1] {
            b.extend_from_slice(x);
        }
        for (l, r) in &self.lr {
            b.extend_from_slice(l);
            b.extend_from_slice(r);
        }
        b
    }

    pub fn to_proof(&self) -> Result<Proof, ProofError> {
        Proof::from_bytes(&self.to_bytes())
    }

    pub fn from_ref(p: &RefProof<P>) -> Parts {
        Parts::from_bytes(&p.to_bytes())
    }

    /// Decode into a reference proof (None if a point does not decode or a scalar is not canonical)
    pub fn to_ref(&self) -> Option<RefProof<P>> {
        let pt = |b: &[u8; 32]| Comp::from_fixed_bytes(*b).decompress();
        let sc = |b: &[u8; 32]| Option::<Scalar>::from(Scalar::from_canonical_bytes(*b));
        Some(RefProof {
            a: pt(&self.a)?,
            a1: pt(&self.a1)?,
            b: pt(&self.b)?,
            r1: sc(&self.r1)?,
            s1: sc(&self.s1)?,
            d1: self.d1.iter().map(sc).collect::<Option<Vec<_>>>()?,
            l: self.lr.iter().map(|(l, _)| pt(l)).collect::<Option<Vec<_>>>()?,
            r: self.lr.iter().map(|(_, r)| pt(r)).collect::<Option<Vec<_>>>()?,
        })
    }
}

pub fn enc(p: &P) -> [u8; 32] {
    *p.compress().as_fixed_bytes()
}

pub fn mask_vec(m: &Option<ExtendedMask>) -> Option<Vec<Scalar>> {
    m.as_ref().and_then(|m| m.blindings().ok())
}

pub fn ext_of(d: usize) -> ExtensionDegree {
    ExtensionDegree::try_from(d).expect("degree")
}

// ------------------------------------------------------------------------------------------------
// Single-component alterations of a (statement, proof, transcript) triple
// ------------------------------------------------------------------------------------------------

#[derive(Clone, Debug)]
pub enum Alter {
    Proof(Parts),
    Promises(Vec<Option<u64>>),
    Commitments(Vec<P>),
    /// (bits, pedersen generators) of the verifier's parameters
    Gens(usize, PedersenGens<P>),
    Ctx(Context),
}

#[derive(Clone, Debug)]
pub struct Mutation {
    pub name: String,
    pub alter: Alter,
    /// a replacement that must NOT change the verdict (e.g. None <-> Some(0))
    pub noop: bool,
}

/// The triple a verifier would be handed after the alteration; `Err` = refused already by the codec or a constructor
pub struct Altered {
    pub t: Transcript,
    pub st: Stmt,
    pub proof: Proof,
    pub rst: RefStatement<P>,
    /// the same statement over the vector generators as documented (for C02)
    pub rst_doc: RefStatement<P>,
    pub parts: Parts,
}

pub fn apply_mutation(case: &Case, orig: &Proof, parts: &Parts, seed: Option<Scalar>, mu: &Mutation) -> Result<Altered, String> {
    let mut p = parts.clone();
    let mut promises = case.promises.clone();
    let mut commitments = case.commitments.clone();
    let mut prm = case.params();
    let mut ctx = case.ctx.clone();
    match &mu.alter {
        Alter::Proof(x) => p = x.clone(),
        Alter::Promises(x) => promises = x.clone(),
        Alter::Commitments(x) => commitments = x.clone(),
        Alter::Gens(n, pc) => {
            prm = RangeParameters::init(*n, case.cfg.cap, pc.clone()).map_err(|e| format!("params: {e}"))?;
        },
        Alter::Ctx(c) => ctx = c.clone(),
    }
    // statement-side alterations keep the original proof object (zero-round proofs cannot be re-decoded)
    let proof = if matches!(mu.alter, Alter::Proof(_)) { p.to_proof().map_err(|e| format!("decode: {e}"))? } else { orig.clone() };
    let st = RangeStatement::init(prm.clone(), commitments.clone(), promises.clone(), seed).map_err(|e| format!("statement: {e}"))?;
    let rst = ref_statement_of(&prm, commitments.len(), &commitments, &promises);
    let rst_doc = ref_statement_documented(&prm, commitments.len(), &commitments, &promises);
    Ok(Altered { t: ctx.transcript(), st, proof, rst, rst_doc, parts: p })
}

fn pushm(v: &mut Vec<Mutation>, name: String, alter: Alter) {
    v.push(Mutation { name, alter, noop: false });
}

pub const SCALAR_BUMPS: [&str; 8] = ["+1", "negated", "zero", "random", "one bit flipped", "+2^128", "one byte cleared", "two bytes exchanged"];

fn bump_scalar(b: &[u8; 32], how: usize, rng: &mut impl RngCore) -> [u8; 32] {
    let s = Option::<Scalar>::from(Scalar::from_canonical_bytes(*b)).unwrap_or(Scalar::ZERO);
    let r = match how % 8 {
        0 => s + Scalar::ONE,
        1 => -s,
        2 => Scalar::ZERO,
        3 => rand_scalar(rng),
        4 => {
            // a neighbour differing in exactly one bit of the encoding (reduced if that leaves the canonical range)
            let mut x = *b;
            let bit = (rng.next_u32() % 252) as usize;
            x[bit / 8] ^= 1 << (bit % 8);
            Scalar::from_bytes_mod_order(x)
        },
        5 => s + Scalar::from(1u128 << 127) + Scalar::from(1u128 << 127),
        6 => {
            let mut x = *b;
            let start = (rng.next_u32() % 32) as usize;
            if let Some(i) = (0..32).map(|k| (start + k) % 32).find(|i| x[*i] != 0) {
                x[i] = 0;
            }
            Scalar::from_bytes_mod_order(x)
        },
        _ => {
            let mut x = *b;
            let i = (rng.next_u32() % 31) as usize;
            x.swap(i, i + 1);
            x[31] &= 0x0F;
            Scalar::from_bytes_mod_order(x)
        },
    };
    let r = if r == s { s + Scalar::from(2u8) } else { r };
    r.to_bytes()
}

pub fn dec(b: &[u8; 32]) -> Option<P> {
    Comp::from_fixed_bytes(*b).decompress()
}

/// Every single-component alteration of the triple (each proof scalar and point position, round count, degree
/// byte, each commitment, commitment order, each promise, bit length, each generator, transcript context).
/// `density` selects how many replacement values per position (1 = one, rotating; 4 = all kinds).
pub fn mutations(case: &Case, parts: &Parts, other: Option<&Parts>, density: usize, rng: &mut impl RngCore) -> Vec<Mutation> {
    let mut v: Vec<Mutation> = vec![];
    let cfg = case.cfg;
    let rot = (rng.next_u32() % 16) as usize;
    // --- scalars
    let n_sc = 2 + parts.d1.len();
    for pos in 0..n_sc {
        for how in 0..(2 * density).min(8) {
            let how = how + rot + pos;
            let mut p = parts.clone();
            let (name, slot): (String, &mut [u8; 32]) = match pos {
                0 => ("r1".into(), &mut p.r1),
                1 => ("s1".into(), &mut p.s1),
                k => (format!("d1[{}]", k - 2), &mut p.d1[k - 2]),
            };
            *slot = bump_scalar(slot, how, rng);
            pushm(&mut v, format!("proof.{name} -> {}", SCALAR_BUMPS[how % 8]), Alter::Proof(p));
        }
    }
    // --- the same scalar in a non-canonical encoding (s + l as a 256-bit integer): another byte string, same value
    {
        const L_LE: [u8; 32] = [0xed, 0xd3, 0xf5, 0x5c, 0x1a, 0x63, 0x12, 0x58, 0xd6, 0x9c, 0xf7, 0xa2, 0xde, 0xf9, 0xde, 0x14, 0, 0, 0, 0, 0, 0, 0, 0, 0, 0, 0, 0, 0, 0, 0, 0x10];
        let pos = rot % n_sc;
        let mut p = parts.clone();
        let (name, slot): (String, &mut [u8; 32]) = match pos {
            0 => ("r1".into(), &mut p.r1),
            1 => ("s1".into(), &mut p.s1),
            k => (format!("d1[{}]", k - 2), &mut p.d1[k - 2]),
        };
        let mut carry = 0u16;
        let mut out = [0u8; 32];
        for i in 0..32 {
            let t = slot[i] as u16 + L_LE[i] as u16 + carry;
            out[i] = t as u8;
            carry = t >> 8;
        }
        if carry == 0 {
            *slot = out;
            pushm(&mut v, format!("proof.{name} -> non-canonical encoding of the same scalar (+ group order)"), Alter::Proof(p));
        }
    }
    // --- points: A, A1, B, each L_j, R_j
    let n_pt = 3 + 2 * parts.lr.len();
    for pos in 0..n_pt {
        let kinds = 7usize;
        for how in 0..(density + density / 2).min(kinds) {
            let how = (how + rot + pos) % kinds;
            let mut p = parts.clone();
            let cur: [u8; 32];
            let name: String;
            {
                let slot: &mut [u8; 32] = match pos {
                    0 => {
                        name = "A".into();
                        &mut p.a
                    },
                    1 => {
                        name = "A1".into();
                        &mut p.a1
                    },
                    2 => {
                        name = "B".into();
                        &mut p.b
                    },
                    k => {
                        let j = (k - 3) / 2;
                        if (k - 3) % 2 == 0 {
                            name = format!("L[{j}]");
                            &mut p.lr[j].0
                        } else {
                            name = format!("R[{j}]");
                            &mut p.lr[j].1
                        }
                    },
                };
                cur = *slot;
                let repl: [u8; 32] = match how {
                    0 => enc(&<P as Gx>::random_point(rng)),
                    1 => [0u8; 32], // identity
                    2 => <P as Gx>::undecodable(),
                    3 => match other {
                        // the element at the same position of another accepted proof
                        Some(o) => match pos {
                            0 => o.a,
                            1 => o.a1,
                            2 => o.b,
                            k => {
                                let j = ((k - 3) / 2) % o.lr.len().max(1);
                                if o.lr.is_empty() {
                                    o.a
                                } else if (k - 3) % 2 == 0 {
                                    o.lr[j].0
                                } else {
                                    o.lr[j].1
                                }
                            },
                        },
                        None => enc(&<P as Gx>::random_point(rng)),
                    },
                    5 => match dec(slot) {
                        // the inverse of the same point
                        Some(pt) => enc(&RefGroup::times(&pt, &(-Scalar::ONE))),
                        None => [0u8; 32],
                    },
                    6 => {
                        // a generator of the statement
                        let prm = case.params();
                        match (rot + pos) % 4 {
                            0 => enc(prm.h_base()),
                            1 => enc(&prm.g_bases()[(rot + pos) % cfg.ext]),
                            2 => enc(prm.gi_base_iter().next().expect("generator")),
                            _ => enc(prm.hi_base_iter().nth((rot + pos) % cfg.n).expect("generator")),
                        }
                    },
                    _ => {
                        // another element of the same proof
                        match pos {
                            0 => parts.a1,
                            1 => parts.b,
                            2 => parts.a,
                            k => {
                                let j = (k - 3) / 2;
                                if (k - 3) % 2 == 0 {
                                    parts.lr[j].1
                                } else {
                                    parts.lr[j].0
                                }
                            },
                        }
                    },
                };
                *slot = repl;
            }
            if p != *parts {
                let _ = cur;
                pushm(&mut v, 
                    format!("proof.{name} -> {}", ["random point", "identity", "undecodable", "other proof's", "sibling element", "negated", "a generator"][how]),
                    Alter::Proof(p),
                );
            }
        }
    }
    // the same point in a non-canonical encoding: top bit of the 32-byte string set
    {
        let pos = rot % n_pt;
        let mut p = parts.clone();
        let (name, slot): (String, &mut [u8; 32]) = match pos {
            0 => ("A".into(), &mut p.a),
            1 => ("A1".into(), &mut p.a1),
            2 => ("B".into(), &mut p.b),
            k => {
                let j = (k - 3) / 2;
                if (k - 3) % 2 == 0 { (format!("L[{j}]"), &mut p.lr[j].0) } else { (format!("R[{j}]"), &mut p.lr[j].1) }
            },
        };
        slot[31] |= 0x80;
        if p != *parts {
            pushm(&mut v, format!("proof.{name} -> same bytes with the top bit set"), Alter::Proof(p));
        }
    }
    // swap L_j <-> L_j'
    if parts.lr.len() >= 2 {
        let mut p = parts.clone();
        let j = rot % (parts.lr.len() - 1);
        let t = p.lr[j].0;
        p.lr[j].0 = p.lr[j + 1].0;
        p.lr[j + 1].0 = t;
        if p != *parts {
            pushm(&mut v, format!("proof.L[{j}] <-> L[{}]", j + 1), Alter::Proof(p));
        }
        let mut p = parts.clone();
        p.lr.swap(j, j + 1);
        if p != *parts {
            pushm(&mut v, format!("proof rounds {j} and {} exchanged", j + 1), Alter::Proof(p));
        }
    }
    // rounds +- 1
    {
        let mut p = parts.clone();
        p.lr.push((enc(&<P as Gx>::random_point(rng)), enc(&<P as Gx>::random_point(rng))));
        pushm(&mut v, "proof rounds + 1".into(), Alter::Proof(p));
        let mut p = parts.clone();
        if let Some(last) = p.lr.last().copied() {
            p.lr.push(last);
            pushm(&mut v, "proof last round duplicated".into(), Alter::Proof(p));
        }
        if parts.lr.len() >= 1 {
            let mut p = parts.clone();
            p.lr.pop();
            pushm(&mut v, "proof rounds - 1".into(), Alter::Proof(p));
        }
        // far too many rounds, all of them decodable points: the round count reaches and passes the word size
        if let Some(last) = parts.lr.last().copied() {
            if density >= 2 || rot % 4 == 0 {
                let target = [64usize, 65, 63, 70][rot % 4];
                let mut p = parts.clone();
                while p.lr.len() < target {
                    p.lr.push(last);
                }
                pushm(&mut v, "proof rounds padded with copies of the last round up to the word size".into(), Alter::Proof(p));
            }
        }
    }
    // degree tag with reserved high bits set (same low bits)
    for hi in [0x10u8, 0x80, 0xF0, 0x08] {
        let mut p = parts.clone();
        p.ext_byte = parts.ext_byte | hi;
        if p.ext_byte != parts.ext_byte && (density >= 2 || hi == [0x10u8, 0x80, 0xF0, 0x08][rot % 4]) {
            pushm(&mut v, format!("proof degree tag {} -> {:#04x} (high bits set)", parts.ext_byte, p.ext_byte), Alter::Proof(p));
        }
    }
    // degree byte (bytes re-interpreted) and d1 length
    for nd in 1..=6u8 {
        if nd as usize != parts.d1.len() {
            let mut p = parts.clone();
            p.ext_byte = nd;
            // keep the element list as is: the decoder re-splits it under the new degree
            let mut bytes = p.to_bytes();
            bytes[0] = nd;
            let n_el = (bytes.len() - 1) / 32;
            if n_el >= 5 + nd as usize + 2 && (n_el - 5 - nd as usize) % 2 == 0 {
                pushm(&mut v, format!("proof degree byte {} -> {nd} (same elements)", parts.d1.len()), Alter::Proof(Parts::from_bytes(&bytes)));
            }
            if density >= 2 || nd as usize == parts.d1.len() + 1 || nd as usize + 1 == parts.d1.len() {
                let mut p = parts.clone();
                p.ext_byte = nd;
                p.d1.resize(nd as usize, Scalar::ONE.to_bytes());
                pushm(&mut v, format!("proof degree {} -> {nd} (d1 resized)", parts.d1.len()), Alter::Proof(p));
            }
        }
    }
    // --- commitments
    let prm = case.params();
    for j in 0..cfg.m {
        let kinds = 6usize;
        for how in 0..(density + density / 2).min(kinds) {
            let how = (how + rot + j) % kinds;
            let mut c = case.commitments.clone();
            c[j] = match how {
                0 => &c[j] + prm.h_base(),
                1 => &c[j] + &prm.g_bases()[(rot + j) % cfg.ext],
                2 => <P as Gx>::random_point(rng),
                3 => RefGroup::times(&c[j], &(-Scalar::ONE)),
                4 => P::identity(),
                _ => RefGroup::times(&c[j], &Scalar::from(2u8)),
            };
            if c[j] == case.commitments[j] {
                continue;
            }
            pushm(&mut v, format!("commitment[{j}] -> {}", ["+H", "+G_k", "random point", "negated", "identity", "doubled"][how]), Alter::Commitments(c));
        }
    }
    if cfg.m >= 2 {
        let j = rot % (cfg.m - 1);
        if case.commitments[j] != case.commitments[j + 1] {
            let mut c = case.commitments.clone();
            c.swap(j, j + 1);
            pushm(&mut v, format!("commitments {j} and {} exchanged", j + 1), Alter::Commitments(c));
        }
        let mut c = case.commitments.clone();
        c[cfg.m - 1] = c[0].clone();
        if c != case.commitments {
            pushm(&mut v, "last commitment replaced by the first".into(), Alter::Commitments(c));
        }
    }
    // --- promises
    let maxv = cfg.max_value();
    for j in 0..cfg.m {
        let cur = case.promises[j];
        let curv = cur.unwrap_or(0);
        let mut cands: Vec<(String, Option<u64>)> = vec![];
        if curv < maxv {
            cands.push(("+1".into(), Some(curv + 1)));
        }
        if curv > 0 {
            cands.push(("-1".into(), Some(curv - 1)));
            cands.push(("-> None".into(), None));
            cands.push(("-> 0".into(), Some(0)));
        }
        if curv != maxv {
            cands.push(("-> 2^n-1".into(), Some(maxv)));
        }
        let take = if density >= 2 { cands.len() } else { 2.min(cands.len()) };
        for (nm, val) in cands.into_iter().skip(rot % 2).take(take.max(1)) {
            let mut p = case.promises.clone();
            p[j] = val;
            if p[j].unwrap_or(0) != curv {
                pushm(&mut v, format!("promise[{j}] {cur:?} {nm}"), Alter::Promises(p));
            }
        }
        // the no-op: None <-> Some(0)
        if curv == 0 {
            let mut p = case.promises.clone();
            p[j] = if cur.is_none() { Some(0) } else { None };
            v.push(Mutation { name: format!("promise[{j}] {cur:?} <-> {:?} (no-op)", p[j]), alter: Alter::Promises(p), noop: true });
        }
    }
    // --- number of promises (one appended / the last one removed): the constructor must refuse, never the verifier panic
    {
        let mut p = case.promises.clone();
        p.push(if rot % 2 == 0 { None } else { Some(1) });
        pushm(&mut v, "one promise appended".into(), Alter::Promises(p));
        let mut p = case.promises.clone();
        p.pop();
        pushm(&mut v, "last promise removed".into(), Alter::Promises(p));
    }
    // --- bit length
    for n2 in [cfg.n * 2, cfg.n / 2] {
        if n2 >= 1 && n2 <= 64 && n2 != cfg.n && n2 * cfg.cap <= 8192 {
            pushm(&mut v, format!("bit length {} -> {n2}", cfg.n), Alter::Gens(n2, prm.pc_gens().clone()));
        }
    }
    // --- generators H, G_k
    {
        let mut pc = prm.pc_gens().clone();
        pc.h_base = <P as Gx>::random_point(rng);
        pc.h_base_compressed = pc.h_base.compress();
        pushm(&mut v, "generator H -> random point".into(), Alter::Gens(cfg.n, pc));
        let mut pc = prm.pc_gens().clone();
        pc.h_base = &pc.h_base + &pc.g_base_vec[0];
        pc.h_base_compressed = pc.h_base.compress();
        pushm(&mut v, "generator H -> H + G_0".into(), Alter::Gens(cfg.n, pc));
    }
    for k in 0..cfg.ext {
        let mut pc = prm.pc_gens().clone();
        pc.g_base_vec[k] = <P as Gx>::random_point(rng);
        pc.g_base_compressed_vec[k] = pc.g_base_vec[k].compress();
        pushm(&mut v, format!("generator G[{k}] -> random point"), Alter::Gens(cfg.n, pc));
    }
    if cfg.ext >= 2 {
        let mut pc = prm.pc_gens().clone();
        let k = rot % (cfg.ext - 1);
        pc.g_base_vec.swap(k, k + 1);
        pc.g_base_compressed_vec.swap(k, k + 1);
        pushm(&mut v, format!("generators G[{k}] and G[{}] exchanged", k + 1), Alter::Gens(cfg.n, pc));
    }
    // --- transcript context
    {
        let mut c = case.ctx.clone();
        c.label = (c.label + 1) % LABELS.len();
        pushm(&mut v, "transcript label changed".into(), Alter::Ctx(c));
        let mut c = case.ctx.clone();
        c.extra.push(vec![0x42]);
        pushm(&mut v, "extra message appended to the context".into(), Alter::Ctx(c));
        if !case.ctx.extra.is_empty() {
            let mut c = case.ctx.clone();
            let last = c.extra.len() - 1;
            if c.extra[last].is_empty() {
                c.extra[last].push(1);
            } else {
                c.extra[last][0] ^= 1;
            }
            pushm(&mut v, "one bit of a context message flipped".into(), Alter::Ctx(c));
            let mut c = case.ctx.clone();
            c.extra.pop();
            pushm(&mut v, "context message removed".into(), Alter::Ctx(c));
        }
    }
    v
}


// ------------------------------------------------------------------------------------------------
// The reference relation evaluated at the challenges the library itself drew
// ------------------------------------------------------------------------------------------------

/// Challenge scalars drawn during a library call, grouped by transcript in order of first use (verify_batch draws
/// member i's challenges on the i-th such transcript)
pub fn observed_challenges(events: &[merlin::probe::Event]) -> Vec<Vec<Scalar>> {
    let mut ids: Vec<u64> = vec![];
    let mut groups: Vec<Vec<Scalar>> = vec![];
    for e in events {
        if e.kind == merlin::probe::Kind::Challenge && e.data.len() == 64 {
            let i = match ids.iter().position(|x| *x == e.id) {
                Some(i) => i,
                None => {
                    ids.push(e.id);
                    groups.push(vec![]);
                    ids.len() - 1
                },
            };
            groups[i].push(wide(&e.data));
        }
    }
    groups
}

pub fn as_challenges(v: &[Scalar], rounds: usize) -> Option<refbp::Challenges> {
    if v.len() != 3 + rounds {
        return None;
    }
    Some(refbp::Challenges { y: v[0], z: v[1], rounds: v[2..2 + rounds].to_vec(), e: v[2 + rounds] })
}

/// Run the library verifier on one triple under the merlin probe and evaluate the reference relation *at the
/// challenges the library drew* (so that the comparison is about the relation, not about the transcript layout,
/// which is C19's business). Returns (library verdict or panic message, reference verdict).
pub fn verdict_pair(t: &Transcript, st: &Stmt, proof: &Proof, rst: &RefStatement<P>, parts: &Parts, action: VerifyAction) -> (Result<bool, String>, bool) {
    merlin::probe::arm();
    let lv = no_panic(|| verify_one(t, st, proof, action).is_ok());
    let ev = merlin::probe::take();
    let rv = match parts.to_ref() {
        None => false,
        Some(rp) => {
            if refbp::ref_shape(rst, &rp) != refbp::Shape::Ok {
                false
            } else {
                let groups = observed_challenges(&ev);
                let ch = groups.first().and_then(|g| as_challenges(g, rp.l.len())).unwrap_or_else(|| refbp::ref_challenges(t, rst, &rp));
                let nonzero = ch.y != Scalar::ZERO && ch.z != Scalar::ZERO && ch.e != Scalar::ZERO && ch.rounds.iter().all(|c| *c != Scalar::ZERO);
                nonzero && refbp::ref_residual_with(rst, &rp, &ch, 2).is_zero()
            }
        },
    };
    (lv, rv)
}
