//! I1 — `FmPoint`: a free Z_l-module standing in for the elliptic-curve group.
//!
//! An element is a sparse coordinate vector `basis-id -> Scalar`. The library is instantiated over
//! this type unchanged (it is generic over the group), which makes the values that are invisible on a
//! curve observable: nonces are coordinates of proof points, the verifier's final multiscalar
//! multiplication is logged with every scalar it used, and the residual it compares with the identity
//! is a coefficient vector.
//!
//! Every assertion the curve25519-dalek backends make about iterator lengths is mirrored here, so a
//! miscounted scalar/point vector panics over `FmPoint` exactly as it would over Ristretto.
#![allow(dead_code)]

use std::{
    borrow::Borrow,
    cell::{Cell, RefCell},
    collections::{BTreeMap, HashMap},
    ops::{Add, AddAssign, Mul},
    sync::{
        atomic::{AtomicU64, Ordering},
        Mutex,
    },
};

use curve25519_dalek::{
    scalar::Scalar,
    traits::{Identity, MultiscalarMul, VartimeMultiscalarMul, VartimePrecomputedMultiscalarMul},
};
use digest::Digest;
use subtle::{Choice, ConstantTimeEq};
use tari_bulletproofs_plus::{
    protocols::curve_point_protocol::CurvePointProtocol,
    traits::{Compressable, Decompressable, FixedBytesRepr, FromUniformBytes, Precomputable},
};

/// First id handed out for harness-made "symbol" basis elements (never produced by hashing)
pub const SYMBOL_BASE: u64 = 1 << 63;

/// Sparse coordinate vector; invariant: no stored coefficient is zero
#[derive(Clone, Debug, PartialEq, Eq, Default)]
pub struct FmPoint(pub BTreeMap<u64, Scalar>);

/// 32-byte handle of an `FmPoint` (SHA3-256 of the canonical coordinate list; all-zero = identity)
#[derive(Clone, Copy, Debug, PartialEq, Eq, Hash)]
pub struct FmCompressed(pub [u8; 32]);

/// One captured call of the precomputed mixed multiscalar multiplication
#[derive(Clone, Debug)]
pub struct MsmCall {
    /// scalars paired with the table's static points, in order
    pub static_scalars: Vec<Scalar>,
    /// number of points in the table
    pub table_len: usize,
    /// (scalar, point) pairs of the dynamic part, in order
    pub dynamic: Vec<(Scalar, FmPoint)>,
    /// the resulting group element
    pub result: FmPoint,
}

#[derive(Default)]
pub struct FmLog {
    pub msm: Vec<MsmCall>,
    pub uniform_inputs: Vec<[u8; 64]>,
    pub precomp_new: Vec<Vec<FmPoint>>,
}

static REG: Mutex<Option<HashMap<[u8; 32], FmPoint>>> = Mutex::new(None);
static BASIS: Mutex<Option<(HashMap<[u8; 64], u64>, HashMap<u64, [u8; 64]>)>> = Mutex::new(None);
static NEXT_SYMBOL: AtomicU64 = AtomicU64::new(SYMBOL_BASE);

thread_local! {
    static LOG: RefCell<Option<FmLog>> = const { RefCell::new(None) };
    static OPS: Cell<u64> = const { Cell::new(0) };
}

/// Start capturing on this thread
pub fn arm() {
    LOG.with(|l| *l.borrow_mut() = Some(FmLog::default()));
}

/// Stop capturing on this thread and return the log
pub fn take() -> FmLog {
    LOG.with(|l| l.borrow_mut().take().unwrap_or_default())
}

/// Logical step counter (scalar x coordinate multiplications performed on this thread)
pub fn ops() -> u64 {
    OPS.with(|o| o.get())
}

pub fn reset_ops() {
    OPS.with(|o| o.set(0));
}

/// Forget all compressed handles (call between cases; generators are re-registered on compress())
pub fn reset_registry() {
    if let Ok(mut g) = REG.lock() {
        *g = None;
    }
}

pub fn registry_len() -> usize {
    REG.lock().map(|g| g.as_ref().map(|m| m.len()).unwrap_or(0)).unwrap_or(0)
}

/// The 64 uniform bytes a hashed basis element was created from
pub fn basis_bytes(id: u64) -> Option<[u8; 64]> {
    let g = BASIS.lock().ok()?;
    g.as_ref()?.1.get(&id).copied()
}

pub fn basis_count() -> usize {
    BASIS.lock().map(|g| g.as_ref().map(|m| m.1.len()).unwrap_or(0)).unwrap_or(0)
}

impl FmPoint {
    fn norm(mut self) -> Self {
        self.0.retain(|_, v| *v != Scalar::ZERO);
        self
    }

    pub fn basis(i: u64) -> Self {
        let mut m = BTreeMap::new();
        m.insert(i, Scalar::ONE);
        FmPoint(m)
    }

    /// A fresh basis element independent of everything that exists (a formal symbol)
    pub fn fresh_symbol() -> Self {
        FmPoint::basis(NEXT_SYMBOL.fetch_add(1, Ordering::Relaxed))
    }

    /// self += a * x (not normalised)
    fn axpy_raw(&mut self, a: &Scalar, x: &FmPoint) {
        OPS.with(|o| o.set(o.get() + x.0.len() as u64));
        for (k, v) in &x.0 {
            *self.0.entry(*k).or_insert(Scalar::ZERO) += a * v;
        }
    }

    /// self += a * x
    pub fn axpy(&mut self, a: &Scalar, x: &FmPoint) {
        self.axpy_raw(a, x);
        self.0.retain(|_, v| *v != Scalar::ZERO);
    }

    pub fn scaled(&self, a: &Scalar) -> FmPoint {
        let mut r = FmPoint::default();
        r.axpy_raw(a, self);
        r.norm()
    }

    /// Coefficient on basis element `id`
    pub fn coeff(&self, id: u64) -> Scalar {
        self.0.get(&id).copied().unwrap_or(Scalar::ZERO)
    }

    /// Coefficient on the (single) basis element of generator `b`
    pub fn coord(&self, b: &FmPoint) -> Scalar {
        match b.single_id() {
            Some(id) => self.coeff(id),
            None => Scalar::ZERO,
        }
    }

    /// If this is exactly one basis element with coefficient one, its id
    pub fn single_id(&self) -> Option<u64> {
        if self.0.len() == 1 {
            let (k, v) = self.0.iter().next()?;
            if *v == Scalar::ONE {
                return Some(*k);
            }
        }
        None
    }

    pub fn nnz(&self) -> usize {
        self.0.len()
    }

    pub fn is_zero(&self) -> bool {
        self.0.is_empty()
    }

    pub fn neg(&self) -> FmPoint {
        self.scaled(&-Scalar::ONE)
    }
}

impl Identity for FmPoint {
    fn identity() -> Self {
        FmPoint::default()
    }
}

impl Identity for FmCompressed {
    fn identity() -> Self {
        FmCompressed([0; 32])
    }
}

impl ConstantTimeEq for FmCompressed {
    fn ct_eq(&self, o: &Self) -> Choice {
        self.0.ct_eq(&o.0)
    }
}

impl FixedBytesRepr for FmCompressed {
    fn as_fixed_bytes(&self) -> &[u8; 32] {
        &self.0
    }

    fn from_fixed_bytes(b: [u8; 32]) -> Self {
        FmCompressed(b)
    }
}

impl Compressable for FmPoint {
    type Compressed = FmCompressed;

    fn compress(&self) -> FmCompressed {
        if self.0.is_empty() {
            return FmCompressed([0; 32]);
        }
        let mut h = sha3::Sha3_256::new();
        h.update(b"FmPoint");
        for (k, v) in &self.0 {
            h.update(k.to_le_bytes());
            h.update(v.as_bytes());
        }
        let d: [u8; 32] = h.finalize().into();
        if let Ok(mut g) = REG.lock() {
            g.get_or_insert_with(HashMap::new).entry(d).or_insert_with(|| self.clone());
        }
        FmCompressed(d)
    }
}

impl Decompressable for FmCompressed {
    type Decompressed = FmPoint;

    fn decompress(&self) -> Option<FmPoint> {
        if self.0 == [0; 32] {
            return Some(FmPoint::default());
        }
        REG.lock().ok()?.as_ref()?.get(&self.0).cloned()
    }
}

impl FromUniformBytes for FmPoint {
    fn from_uniform_bytes(b: &[u8; 64]) -> Self {
        LOG.with(|l| {
            if let Some(log) = l.borrow_mut().as_mut() {
                log.uniform_inputs.push(*b);
            }
        });
        // the id of a hashed basis element is a function of its 64 bytes alone (not of registration order), so that
        // encodings over the free module are as history-independent as encodings of curve points
        let d: [u8; 32] = sha3::Sha3_256::digest(b).into();
        let id = u64::from_le_bytes([d[0], d[1], d[2], d[3], d[4], d[5], d[6], d[7]]) & !SYMBOL_BASE;
        let mut g = BASIS.lock().unwrap_or_else(|e| e.into_inner());
        let (m, v) = g.get_or_insert_with(|| (HashMap::new(), HashMap::new()));
        if !m.contains_key(b) {
            if let Some(other) = v.get(&id) {
                assert!(other == b, "FmPoint: 63-bit id collision between two different hash-to-group inputs");
            }
            m.insert(*b, id);
            v.insert(id, *b);
        }
        FmPoint::basis(id)
    }
}

impl Add for FmPoint {
    type Output = FmPoint;

    fn add(mut self, o: FmPoint) -> FmPoint {
        self.axpy(&Scalar::ONE, &o);
        self
    }
}

impl<'a> Add for &'a FmPoint {
    type Output = FmPoint;

    fn add(self, o: &FmPoint) -> FmPoint {
        let mut r = self.clone();
        r.axpy(&Scalar::ONE, o);
        r
    }
}

impl AddAssign for FmPoint {
    fn add_assign(&mut self, o: FmPoint) {
        self.axpy(&Scalar::ONE, &o);
    }
}

impl<'a> Mul<Scalar> for &'a FmPoint {
    type Output = FmPoint;

    fn mul(self, s: Scalar) -> FmPoint {
        self.scaled(&s)
    }
}

// Mirrors the size-hint sanity checks of curve25519-dalek's `EdwardsPoint::{optional_,}multiscalar_mul`
fn checked_msm<I, J>(scalars: I, points: J) -> Option<FmPoint>
where
    I: IntoIterator,
    I::Item: Borrow<Scalar>,
    J: IntoIterator<Item = Option<FmPoint>>,
{
    let mut scalars = scalars.into_iter();
    let mut points = points.into_iter();
    let (s_lo, s_hi) = scalars.by_ref().size_hint();
    let (p_lo, p_hi) = points.by_ref().size_hint();
    assert_eq!(s_lo, p_lo, "FmPoint msm: scalar/point size hints differ");
    assert_eq!(s_hi, Some(s_lo), "FmPoint msm: scalar size hint inexact");
    assert_eq!(p_hi, Some(p_lo), "FmPoint msm: point size hint inexact");
    let s: Vec<Scalar> = scalars.map(|x| *x.borrow()).collect();
    let p: Vec<Option<FmPoint>> = points.collect();
    // the straus/pippenger backends zip the two sequences
    let mut r = FmPoint::default();
    for (s, p) in s.iter().zip(p) {
        r.axpy_raw(s, &p?);
    }
    Some(r.norm())
}

impl VartimeMultiscalarMul for FmPoint {
    type Point = FmPoint;

    fn optional_multiscalar_mul<I, J>(scalars: I, points: J) -> Option<FmPoint>
    where
        I: IntoIterator,
        I::Item: Borrow<Scalar>,
        J: IntoIterator<Item = Option<FmPoint>>,
    {
        checked_msm(scalars, points)
    }
}

impl MultiscalarMul for FmPoint {
    type Point = FmPoint;

    fn multiscalar_mul<I, J>(scalars: I, points: J) -> FmPoint
    where
        I: IntoIterator,
        I::Item: Borrow<Scalar>,
        J: IntoIterator,
        J::Item: Borrow<FmPoint>,
    {
        checked_msm(scalars, points.into_iter().map(|p| Some(p.borrow().clone()))).unwrap()
    }
}

/// `VartimePrecomputedMultiscalarMul` over `FmPoint`: keeps the static points and logs every call
pub struct FmPrecomp(pub Vec<FmPoint>);

impl VartimePrecomputedMultiscalarMul for FmPrecomp {
    type Point = FmPoint;

    fn new<I>(static_points: I) -> Self
    where
        I: IntoIterator,
        I::Item: Borrow<FmPoint>,
    {
        let v: Vec<FmPoint> = static_points.into_iter().map(|p| p.borrow().clone()).collect();
        LOG.with(|l| {
            if let Some(log) = l.borrow_mut().as_mut() {
                log.precomp_new.push(v.clone());
            }
        });
        FmPrecomp(v)
    }

    fn optional_mixed_multiscalar_mul<I, J, K>(&self, ss: I, ds: J, dp: K) -> Option<FmPoint>
    where
        I: IntoIterator,
        I::Item: Borrow<Scalar>,
        J: IntoIterator,
        J::Item: Borrow<Scalar>,
        K: IntoIterator<Item = Option<FmPoint>>,
    {
        let ss: Vec<Scalar> = ss.into_iter().map(|x| *x.borrow()).collect();
        let ds: Vec<Scalar> = ds.into_iter().map(|x| *x.borrow()).collect();
        let dp: Option<Vec<FmPoint>> = dp.into_iter().collect();
        let dp = dp?;
        // same assertions as dalek's VartimePrecomputedStraus
        assert_eq!(self.0.len(), ss.len(), "FmPrecomp: static scalar count != table size");
        assert_eq!(dp.len(), ds.len(), "FmPrecomp: dynamic scalar count != dynamic point count");
        let mut r = FmPoint::default();
        for (s, p) in ss.iter().zip(&self.0) {
            r.axpy_raw(s, p);
        }
        for (s, p) in ds.iter().zip(&dp) {
            r.axpy_raw(s, p);
        }
        let r = r.norm();
        LOG.with(|l| {
            if let Some(log) = l.borrow_mut().as_mut() {
                log.msm.push(MsmCall {
                    static_scalars: ss,
                    table_len: self.0.len(),
                    dynamic: ds.into_iter().zip(dp).collect(),
                    result: r.clone(),
                });
            }
        });
        Some(r)
    }
}

impl Precomputable for FmPoint {
    type Precomputation = FmPrecomp;
}

impl CurvePointProtocol for FmPoint {}
