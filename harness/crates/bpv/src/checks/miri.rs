//! Tiny workloads sized for the Miri interpreter (thorough tier only): undefined behaviour or a data race reported
//! by Miri in the dependencies' unsafe code reached from the library is a violation (C15: decoder corpus; C18:
//! racing first use of the once-initialised generator statics and threads sharing one parameter object).

use std::sync::{Arc, Barrier};

use curve25519_dalek::scalar::Scalar;
use serde_json::json;
use tari_bulletproofs_plus::{generators::pedersen_gens::ExtensionDegree, range_proof::VerifyAction, ristretto};

use crate::{common::*, refbp};

pub fn c15(ctx: &Ctx, rep: &mut Report) {
    // the generic C15 oracle on a reduced corpus (no prover outputs)
    let mut n = 0u64;
    for tag in [0u8, 1, 2, 6, 7, 255] {
        for len in [0usize, 1, 32, 33, 224, 225, 257, 289, 290, 321] {
            for f in 0..3usize {
                let mut b: Vec<u8> = match f {
                    0 => vec![0u8; len],
                    1 => (0..len).map(|i| if i > 0 && (i - 1) % 32 == 31 { 3 } else { (i * 7 + 3) as u8 }).collect(),
                    _ => vec![0xFF; len],
                };
                if len > 0 {
                    b[0] = tag;
                }
                let want = crate::onris::c15::accepts(&b);
                let got = crate::onris::Proof::from_bytes(&b);
                let got_fm = crate::onfm::Proof::from_bytes(&b);
                n += 2;
                if got.is_ok() != want || got_fm.is_ok() != want {
                    rep.violation("C15 acceptance-set [miri corpus]", &format!("tag {tag} length {len} filler {f}: decoder {} / predicate {want}", got.is_ok()), json!({"tier": "thorough", "seed": ctx.seed, "leg": "miri", "case": 0}));
                }
                if let Ok(p) = got {
                    if p.to_bytes() != b {
                        rep.violation("C15 reencode-differs [miri corpus]", "re-encoding differs", json!({"tier": "thorough", "seed": ctx.seed, "leg": "miri", "case": 0}));
                    }
                    let mut framed = (b.len() as u64).to_le_bytes().to_vec();
                    framed.extend_from_slice(&b);
                    let _ = bincode::deserialize::<crate::onris::Proof>(&framed);
                }
            }
        }
    }
    rep.evaluations += n;
    rep.distinct_extra += n / 2;
    rep.count("miri_decodes", n);
    rep.sample("miri", json!({"decodes": n}));
}

/// Hostile inputs through the real Ristretto backend under the interpreter: decoding, point decompression of
/// non-canonical / identity / undecodable encodings, and one full verification of a well-shaped random proof
pub fn c16(ctx: &Ctx, rep: &mut Report) {
    use crate::onris::*;
    use tari_bulletproofs_plus::{range_proof::RangeProof, range_statement::RangeStatement};
    let mut rng = ctx.rng("c16-miri", 0);
    let prm = params_uncached(1, 2, 2);
    let cs: Vec<P> = (0..2).map(|_| <P as crate::gx::Gx>::random_point(&mut rng)).collect();
    let st = RangeStatement::init(prm, cs, vec![None, Some(1)], None).expect("statement");
    let t = Context::plain().transcript();
    let mut n = 0u64;
    for variant in 0..6usize {
        let mut parts = Parts {
            ext_byte: 2,
            d1: vec![rand_scalar(&mut rng).to_bytes(), rand_scalar(&mut rng).to_bytes()],
            a: enc(&<P as crate::gx::Gx>::random_point(&mut rng)),
            a1: enc(&<P as crate::gx::Gx>::random_point(&mut rng)),
            b: enc(&<P as crate::gx::Gx>::random_point(&mut rng)),
            r1: rand_scalar(&mut rng).to_bytes(),
            s1: [0u8; 32],
            lr: vec![(enc(&<P as crate::gx::Gx>::random_point(&mut rng)), enc(&<P as crate::gx::Gx>::random_point(&mut rng)))],
        };
        match variant {
            0 => {},
            1 => parts.a = [0u8; 32],
            2 => parts.lr[0].1 = [0xFF; 32],
            3 => parts.b[31] |= 0x80,
            4 => parts.lr.push(parts.lr[0]),
            _ => parts.ext_byte = 3,
        }
        let bytes = parts.to_bytes();
        let r = no_panic(|| {
            if let Ok(p) = Proof::from_bytes(&bytes) {
                let _ = RangeProof::verify_batch(&mut [t.clone()], std::slice::from_ref(&st), std::slice::from_ref(&p), [VerifyAction::VerifyOnly, VerifyAction::RecoverAndVerify][variant % 2]);
            }
        });
        n += 1;
        if let Err(p) = r {
            rep.violation("C16 panic [miri corpus]", &format!("panic on hostile variant {variant}: {p}"), json!({"tier": "thorough", "seed": ctx.seed, "leg": "miri", "case": variant}));
        }
    }
    rep.evaluations += n;
    rep.distinct_extra += n;
    rep.count("miri_hostile_cases", n);
    rep.sample("miri", json!({"hostile_variants": ["well-shaped random", "identity A", "undecodable R", "non-canonical B", "surplus round", "wrong degree byte"]}));
}

pub fn c18(ctx: &Ctx, rep: &mut Report) {
    // (a) racing first use of the cached blinding generators
    let t = 3;
    let barrier = Arc::new(Barrier::new(t));
    let hs: Vec<_> = (0..t)
        .map(|ti| {
            let b = barrier.clone();
            std::thread::spawn(move || {
                b.wait();
                let ext = [6usize, 1, 3][ti % 3];
                let pc = ristretto::create_pedersen_gens_with_extension_degree(ExtensionDegree::try_from(ext).unwrap());
                (ext, pc.g_base_vec.clone(), pc.g_base_compressed_vec.clone())
            })
        })
        .collect();
    let (_, g6) = refbp::ref_ristretto_pedersen(6);
    for h in hs {
        let (ext, g, gc) = h.join().expect("thread");
        rep.count("miri_racing_first_calls", 1);
        if g.len() != ext || g[..] != g6[..ext] || g.iter().zip(gc.iter()).any(|(p, c)| p.compress() != *c) {
            rep.violation("C18 race-wrong-generators [miri]", "racing first use under Miri gave wrong generators", json!({"tier": "thorough", "seed": ctx.seed, "leg": "miri", "case": 0}));
        }
    }
    // (b) two threads proving and verifying over clones of one parameter object (free-module group: cheap under Miri)
    use crate::onfm::*;
    let shared = params_uncached(2, 2, 2);
    let mut rng = ctx.rng("c18-miri", 0);
    let case = Case::random(Cfg::new(2, 2, 2, 2), ValueClass::Max, PromiseClass::Mixed, false, &mut rng);
    let st = case.statement_with(&shared, &case.promises, None);
    let mut prng = FaultRng::new(RngKind::Healthy(5));
    let base = tari_bulletproofs_plus::range_proof::RangeProof::prove_with_rng(&mut case.transcript(), &st, &case.witness(), &mut prng).map(|p| p.to_bytes());
    let results: Vec<_> = std::thread::scope(|s| {
        let hs: Vec<_> = (0..2)
            .map(|_| {
                let shared = &shared;
                let case = &case;
                s.spawn(move || {
                    let mine = shared.clone();
                    let st = case.statement_with(&mine, &case.promises, None);
                    let mut prng = FaultRng::new(RngKind::Healthy(5));
                    let p = tari_bulletproofs_plus::range_proof::RangeProof::prove_with_rng(&mut case.transcript(), &st, &case.witness(), &mut prng);
                    let ok = p.as_ref().map(|p| verify_one(&case.transcript(), &st, p, VerifyAction::VerifyOnly).is_ok()).unwrap_or(false);
                    (p.map(|p| p.to_bytes()), ok)
                })
            })
            .collect();
        hs.into_iter().map(|h| h.join().expect("thread")).collect()
    });
    for (p, ok) in results {
        rep.count("miri_concurrent_calls", 2);
        if !ok || p.ok() != base.as_ref().ok().cloned() {
            rep.violation("C18 concurrent-result-differs [miri]", "a concurrent prove/verify under Miri differs from the sequential result", json!({"tier": "thorough", "seed": ctx.seed, "leg": "miri", "case": 0}));
        }
    }
    rep.evaluations += 2;
    rep.distinct_extra += 2;
    rep.sample("miri", json!({"threads_racing_generators": t, "threads_sharing_parameters": 2}));
    let _ = Scalar::ONE;
}
