//! Check dispatch. Group-generic legs live in `gen/` (compiled once per group); group-specific and
//! orchestrating code lives here.
use crate::common::{Ctx, Report};

mod c02fm;
mod c08fm;
mod c11;
mod c16;
mod c18;
mod c19;
mod c20;
mod miri;
pub mod selftest;
pub mod c13fm;

pub fn dispatch(ctx: &Ctx, rep: &mut Report) {
    if ctx.check == "selftest" {
        let problems = selftest::run_all(&ctx.opt("vectors").unwrap_or_else(|| "/verif/vectors/golden.json".to_string()));
        for p in &problems {
            eprintln!("SELFTEST FAILED: {p}");
        }
        println!("selftest: {} problem(s)", problems.len());
        std::process::exit(if problems.is_empty() { 0 } else { 4 });
    }
    if ctx.leg == "miri" {
        match ctx.check.as_str() {
            "C15" => miri::c15(ctx, rep),
            "C16" => miri::c16(ctx, rep),
            "C18" => miri::c18(ctx, rep),
            _ => {},
        }
        return;
    }
    let fm = ctx.leg == "all" || ctx.leg == "fm";
    let ris = ctx.leg == "all" || ctx.leg == "ris";
    match ctx.check.as_str() {
        "C01" => {
            if fm {
                crate::onfm::c01::run(ctx, rep);
            }
            if ris {
                crate::onris::c01::run(ctx, rep);
            }
        },
        "C02" => {
            if ctx.leg == "all" || ctx.leg == "fm-coeff" {
                c02fm::run(ctx, rep);
            }
            if ctx.leg == "all" || ctx.leg == "fm-verdict" {
                crate::onfm::c02::run(ctx, rep);
            }
            if ctx.leg == "all" || ctx.leg == "ris-verdict" {
                crate::onris::c02::run(ctx, rep);
            }
        },
        "C03" => {
            if fm {
                crate::onfm::c03::run(ctx, rep);
            }
            if ris {
                crate::onris::c03::run(ctx, rep);
            }
        },
        "C04" => {
            if fm {
                crate::onfm::c04::run(ctx, rep);
            }
            if ris {
                crate::onris::c04::run(ctx, rep);
            }
        },
        "C05" => {
            if fm {
                crate::onfm::c05::run(ctx, rep);
            }
            if ris {
                crate::onris::c05::run(ctx, rep);
            }
        },
        "C06" => {
            if fm {
                crate::onfm::c06::run(ctx, rep);
            }
            if ris {
                crate::onris::c06::run(ctx, rep);
            }
        },
        "C07" => {
            if fm {
                crate::onfm::c07::run(ctx, rep);
            }
            if ris {
                crate::onris::c07::run(ctx, rep);
            }
        },
        "C08" => {
            if ctx.leg == "all" || ctx.leg == "fm-weights" {
                c08fm::run(ctx, rep);
            }
            if ctx.leg == "all" || ctx.leg == "fm-round0" {
                crate::onfm::c08::round0(ctx, rep);
            }
            if ctx.leg == "all" || ctx.leg == "ris-round0" {
                crate::onris::c08::round0(ctx, rep);
            }
        },
        "C09" => {
            if fm {
                crate::onfm::c09::run(ctx, rep);
            }
            if ris {
                crate::onris::c09::run(ctx, rep);
            }
        },
        "C10" => {
            if fm {
                crate::onfm::c10::run(ctx, rep);
            }
            if ris {
                crate::onris::c10::run(ctx, rep);
            }
        },
        "C11" => c11::run(ctx, rep),
        "C12" => {
            if fm {
                crate::onfm::c12::run(ctx, rep);
            }
            if ris {
                crate::onris::c12::run(ctx, rep);
            }
        },
        "C13" => c13fm::run(ctx, rep),
        "C14" => {
            if fm {
                crate::onfm::c14::run(ctx, rep);
            }
            if ris {
                crate::onris::c14::run(ctx, rep);
            }
        },
        "C15" => {
            if fm {
                crate::onfm::c15::run(ctx, rep);
            }
            if ris {
                crate::onris::c15::run(ctx, rep);
            }
        },
        "C17" => {
            if fm {
                crate::onfm::c17::run(ctx, rep);
            }
            if ris {
                crate::onris::c17::run(ctx, rep);
            }
        },
        "C16" => c16::run(ctx, rep),
        "C18" => c18::run(ctx, rep),
        "C19" => c19::run(ctx, rep),
        "C20" => c20::run(ctx, rep),
        other => {
            eprintln!("unknown check {other}");
            std::process::exit(3);
        },
    }
}
