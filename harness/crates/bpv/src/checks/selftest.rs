//! Self-test of the instruments (run by bin/setup and at the start of the C19 vectors leg): the event-logging copy of
//! merlin reproduces the pristine crate's outputs bit for bit; the free-module group obeys the module laws and its
//! handles round-trip; the reference prover's proofs satisfy the reference verifier; the scanner sees a planted canary.

use curve25519_dalek::scalar::Scalar;
use merlin::Transcript;
use rand_core::RngCore;
use serde_json::Value;
use tari_bulletproofs_plus::traits::{Compressable, Decompressable};

use crate::{
    common::*,
    fm::FmPoint,
    refbp::{self, RefGroup},
};

/// Compare the probe with the known answers recorded from pristine merlin (vectors/golden.json)
pub fn merlin_probe_matches_pristine(golden: &Value) -> Result<(), String> {
    let k = &golden["merlin_kat"];
    if k.is_null() {
        return Err("no merlin_kat in the golden file".into());
    }
    let mut zero = FaultRng::new(RngKind::AllZero);
    let mut t = Transcript::new(b"bpv-kat");
    t.append_message(b"a", &[1, 2, 3]);
    t.append_u64(b"n", 0x0102030405060708);
    let mut c1 = [0u8; 64];
    t.challenge_bytes(b"c1", &mut c1);
    let mut fork = t.clone();
    fork.append_message(b"b", &[7u8; 40]);
    let mut c2 = [0u8; 32];
    fork.challenge_bytes(b"c2", &mut c2);
    let mut rng = t.build_rng().rekey_with_witness_bytes(b"w", &[9u8; 40]).finalize(&mut zero);
    let mut r1 = [0u8; 64];
    rng.fill_bytes(&mut r1);
    let mut r2 = [0u8; 8];
    rng.fill_bytes(&mut r2);
    for (name, got) in [("c1", hex(&c1)), ("c2", hex(&c2)), ("r1", hex(&r1)), ("r2", hex(&r2))] {
        if k[name].as_str() != Some(got.as_str()) {
            return Err(format!("merlin probe output `{name}` differs from pristine merlin 3.0.0"));
        }
    }
    // armed or not, the outputs are the same
    merlin::probe::arm();
    let mut t2 = Transcript::new(b"bpv-kat");
    t2.append_message(b"a", &[1, 2, 3]);
    t2.append_u64(b"n", 0x0102030405060708);
    let mut c1b = [0u8; 64];
    t2.challenge_bytes(b"c1", &mut c1b);
    let ev = merlin::probe::take();
    if c1b != c1 {
        return Err("arming the probe changes transcript outputs".into());
    }
    if ev.len() != 5 {
        return Err(format!("probe logged {} events for new + dom-sep + 2 appends + 1 challenge (expected 5)", ev.len()));
    }
    Ok(())
}

pub fn fm_group_laws() -> Result<(), String> {
    let mut rng = FaultRng::new(RngKind::Healthy(42));
    let g: Vec<FmPoint> = (0..4u8).map(|i| FmPoint::from_uniform(&[i; 64])).collect();
    let (a, b, c) = (rand_scalar(&mut rng), rand_scalar(&mut rng), rand_scalar(&mut rng));
    let p = g[0].times(&a).plus(&g[1].times(&b));
    let q = g[1].times(&c).plus(&g[2]);
    if p.plus(&q) != q.plus(&p) {
        return Err("FmPoint addition is not commutative".into());
    }
    if p.plus(&q).times(&a) != p.times(&a).plus(&q.times(&a)) {
        return Err("FmPoint scalar multiplication does not distribute".into());
    }
    if p.times(&a).times(&b) != p.times(&(a * b)) {
        return Err("FmPoint scalar multiplication is not associative".into());
    }
    if !p.plus(&p.times(&-Scalar::ONE)).is_zero() {
        return Err("FmPoint p - p is not the identity".into());
    }
    if g[0] == g[1] || FmPoint::from_uniform(&[0u8; 64]) != g[0] {
        return Err("FmPoint hash-to-group is not injective / deterministic".into());
    }
    let h = p.compress();
    if h.decompress() != Some(p.clone()) || q.compress() == h {
        return Err("FmPoint handles do not round-trip".into());
    }
    if crate::fm::FmCompressed([0xEE; 32]).decompress().is_some() {
        return Err("FmPoint decodes an unknown handle".into());
    }
    Ok(())
}

pub fn reference_self_consistent() -> Result<(), String> {
    use crate::onris::*;
    let mut rng = FaultRng::new(RngKind::Healthy(7));
    for cfg in [Cfg::new(1, 1, 1, 1), Cfg::new(4, 2, 2, 3), Cfg::new(8, 1, 2, 6)] {
        let case = Case::random(cfg, ValueClass::RandomHigh, PromiseClass::Mixed, false, &mut rng);
        let rst = case.ref_statement();
        let mut nonce = |_: &str, _: Option<usize>, _: Option<usize>| rand_scalar(&mut rng);
        let rp = refbp::ref_prove(&case.transcript(), &rst, &case.ref_witness(), &mut nonce, &refbp::Cheat::Honest);
        if !refbp::ref_verify(&case.transcript(), &rst, &rp) {
            return Err(format!("the reference verifier rejects the reference prover's honest proof at {cfg:?}"));
        }
        let mut bad = rp.clone();
        bad.r1 += Scalar::ONE;
        if refbp::ref_verify(&case.transcript(), &rst, &bad) {
            return Err("the reference verifier accepts a tampered proof".into());
        }
    }
    Ok(())
}

pub fn run_all(golden_path: &str) -> Vec<String> {
    let mut problems = vec![];
    match std::fs::read_to_string(golden_path).ok().and_then(|t| serde_json::from_str::<Value>(&t).ok()) {
        Some(g) => {
            if let Err(e) = merlin_probe_matches_pristine(&g) {
                problems.push(e);
            }
        },
        None => problems.push(format!("cannot read {golden_path}")),
    }
    for r in [fm_group_laws(), reference_self_consistent()] {
        if let Err(e) = r {
            problems.push(e);
        }
    }
    problems
}
