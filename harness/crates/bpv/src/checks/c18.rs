//! C18 — proving and verifying are pure, repeatable and thread-safe.
//!  history legs  : gen/c18.rs (both groups), baseline from virgin child processes
//!  threads leg   : T threads sharing one RangeParameters (hence one Arc'd precomputation) run interleaved jobs;
//!                  every result must equal the sequential baseline; overlaps are measured with a global tick
//!  race leg      : fresh processes in which T threads make the first-ever calls to the cached generator tables
//! The threads and race legs are also built and run under ThreadSanitizer by the driver.

use std::{
    process::{Command, Stdio},
    sync::{
        atomic::{AtomicU64, Ordering},
        Arc, Barrier,
    },
};

use curve25519_dalek::scalar::Scalar;
use digest::Digest;
#[allow(unused_imports)]
use merlin::Transcript;
use rand_core::RngCore;
use serde_json::json;
use tari_bulletproofs_plus::{
    generators::pedersen_gens::ExtensionDegree,
    range_parameters::RangeParameters,
    range_proof::{RangeProof, VerifyAction},
    ristretto,
};

use crate::{common::*, onris::*, refbp};

pub fn run(ctx: &Ctx, rep: &mut Report) {
    match ctx.leg.as_str() {
        "virgin-fm" => {
            let pid: usize = ctx.opt("probe").and_then(|s| s.parse().ok()).unwrap_or(0);
            println!("DIGEST {}", crate::onfm::c18::probe(pid, ctx.seed));
            std::process::exit(0);
        },
        "virgin-ris" => {
            let pid: usize = ctx.opt("probe").and_then(|s| s.parse().ok()).unwrap_or(0);
            println!("DIGEST {}", crate::onris::c18::probe(pid, ctx.seed));
            std::process::exit(0);
        },
        "race-child" => race_child(ctx),
        "tsan-selftest" => {
            // a deliberate data race, to confirm that the sanitizer pipeline reports one (never part of a check)
            static mut RACY: u64 = 0;
            let hs: Vec<_> = (0..2)
                .map(|_| {
                    std::thread::spawn(|| {
                        for _ in 0..10000 {
                            unsafe {
                                let p = std::ptr::addr_of_mut!(RACY);
                                p.write_volatile(p.read_volatile() + 1);
                            }
                        }
                    })
                })
                .collect();
            for h in hs {
                let _ = h.join();
            }
            println!("selftest done");
            std::process::exit(0);
        },
        _ => {},
    }
    let all = ctx.leg == "all";
    if all || ctx.leg == "fm-history" {
        crate::onfm::c18::histories(ctx, rep, &|pid| virgin(ctx, "virgin-fm", pid));
    }
    if all || ctx.leg == "ris-history" {
        crate::onris::c18::histories(ctx, rep, &|pid| virgin(ctx, "virgin-ris", pid));
    }
    if all || ctx.leg == "threads" {
        threads(ctx, rep);
    }
    if all || ctx.leg == "race" {
        race(ctx, rep);
    }
    if all || ctx.leg == "repeat" {
        repeat(ctx, rep);
    }
}

/// Repeating one call - sequentially and from several threads at once - gives bit-identical results, also for batches
/// longer than the internal chunk size (where an implementation may be tempted to work on chunks in parallel)
fn repeat(ctx: &Ctx, rep: &mut Report) {
    let sizes: &[usize] = if ctx.thorough() { &[2, 5, 256, 257, 300, 511, 512, 513, 600, 768, 1024] } else { &[3, 257, 300, 512, 513] };
    let tsan = ctx.flag("profile=tsan");
    let mut id = 12000usize;
    for (si, &size) in sizes.iter().enumerate() {
        for pat in 0..(if ctx.thorough() { 4 } else { 2 }) {
            id += 1;
            if !ctx.mine(id) || (tsan && size > 300) {
                continue;
            }
            let mut rng = ctx.rng("c18-repeat", id as u64);
            let n = [2usize, 4][(si + pat) % 2];
            let ext = 1 + (si + pat) % 6;
            clear_params_cache();
            let mut pool: Vec<(Case, Proof)> = vec![];
            for i in 0..8 {
                let m = [1usize, 1, 2, 1, 4, 1, 2, 1][i];
                let case = Case::random(Cfg::new(n, m, m << (i % 2), ext), VALUE_CLASSES[i % 6], PROMISE_CLASSES[i % 5], i % 3 != 1, &mut rng);
                let mut prng = FaultRng::new(RngKind::Healthy(rng.next_u64()));
                if let Ok(p) = case.prove(&mut prng) {
                    pool.push((case, p));
                }
            }
            if pool.len() < 4 {
                continue;
            }
            // unequal work per chunk: the first chunk holds the expensive members
            let order: Vec<usize> = (0..size).map(|i| if pat % 2 == 0 && i < 256 { 4 % pool.len() } else { (i * 5 + pat) % pool.len() }).collect();
            let ts: Vec<merlin::Transcript> = order.iter().map(|i| pool[*i].0.transcript()).collect();
            let sts: Vec<Stmt> = order.iter().map(|i| pool[*i].0.statement()).collect();
            let proofs: Vec<Proof> = order.iter().map(|i| pool[*i].1.clone()).collect();
            let digest = |r: &Result<Vec<Option<tari_bulletproofs_plus::extended_mask::ExtendedMask>>, tari_bulletproofs_plus::errors::ProofError>| -> String {
                let mut h = sha3::Sha3_256::new();
                match r {
                    Ok(v) => {
                        for m in v {
                            match mask_vec(m) {
                                Some(x) => {
                                    h.update(b"S");
                                    for s in x {
                                        h.update(s.as_bytes());
                                    }
                                },
                                None => h.update(b"N"),
                            }
                        }
                    },
                    Err(e) => h.update(e.to_string().as_bytes()),
                }
                hex(&h.finalize())
            };
            let action = [VerifyAction::RecoverAndVerify, VerifyAction::RecoverOnly][pat % 2];
            let first = no_panic(|| verify_many(&ts, &sts, &proofs, action));
            let replay = json!({"tier": if ctx.thorough() {"thorough"} else {"quick"}, "seed": ctx.seed, "leg": "repeat", "case": id, "descr": {"batch": size, "bits": n, "ext": ext}});
            let first = match first {
                Ok(r) => r,
                Err(p) => {
                    rep.violation("C18 repeat-panic", &format!("verify_batch panicked on a valid batch of {size}: {p}"), replay);
                    continue;
                },
            };
            let d0 = digest(&first);
            rep.eval(&("repeat", size, pat));
            rep.count("repeated_batches", 1);
            // the expectation itself: slot i holds member i's mask
            if let Ok(v) = &first {
                let ok = v.len() == size && order.iter().zip(v.iter()).all(|(i, g)| mask_vec(g) == if pool[*i].0.seed.is_some() { Some(pool[*i].0.blindings[0].clone()) } else { None });
                if !ok {
                    rep.violation(&format!("C18 repeat-wrong-result size{}256", if size > 256 { ">" } else { "<=" }), &format!("verify_batch on a valid batch of {size}: results are not aligned with the members"), replay.clone());
                }
            } else {
                rep.violation(&format!("C18 repeat-rejected size{}256", if size > 256 { ">" } else { "<=" }), &format!("a valid batch of {size} was rejected"), replay.clone());
            }
            let reps = if tsan { 2 } else { 5 };
            let mut differing = 0;
            for _ in 0..reps {
                rep.count("repetitions_compared", 1);
                if digest(&verify_many(&ts, &sts, &proofs, action)) != d0 {
                    differing += 1;
                }
            }
            let conc: Vec<String> = std::thread::scope(|s| {
                let hs: Vec<_> = (0..4).map(|_| s.spawn(|| digest(&verify_many(&ts, &sts, &proofs, action)))).collect();
                hs.into_iter().map(|h| h.join().unwrap_or_default()).collect()
            });
            for d in conc {
                rep.count("repetitions_compared", 1);
                if d != d0 {
                    differing += 1;
                }
            }
            if differing > 0 {
                rep.violation(&format!("C18 repeat-differs size{}256", if size > 256 { ">" } else { "<=" }), &format!("{differing} of {} repetitions of the same verify_batch call on a batch of {size} returned a different result", reps + 4), replay.clone());
            }
        }
    }
    rep.sample("repeat", json!({"sizes": sizes}));
}

fn virgin(ctx: &Ctx, leg: &str, pid: usize) -> Option<String> {
    let exe = std::env::current_exe().ok()?;
    let out = Command::new(exe)
        .args(["C18", "--leg", leg, "--seed", &ctx.seed.to_string(), &format!("probe={pid}")])
        .stdout(Stdio::piped())
        .stderr(Stdio::null())
        .output()
        .ok()?;
    let s = String::from_utf8_lossy(&out.stdout);
    s.lines().find_map(|l| l.strip_prefix("DIGEST ").map(|d| d.trim().to_string()))
}

// ------------------------------------------------------------------------------------------------
// threads
// ------------------------------------------------------------------------------------------------

#[derive(Clone)]
struct Job {
    kind: usize,
    case: Case,
    proof: Proof,
    rng_seed: u64,
}

static TICK: AtomicU64 = AtomicU64::new(0);

fn run_job(j: &Job, shared: &Params) -> String {
    let mut h = sha3::Sha3_256::new();
    // the statement is rebuilt on top of (a clone of) the shared parameter object
    let st = j.case.statement_with(shared, &j.case.promises, j.case.seed);
    match j.kind % 7 {
        0 => {
            let mut prng = FaultRng::new(RngKind::Healthy(j.rng_seed));
            match RangeProof::prove_with_rng(&mut j.case.transcript(), &st, &j.case.witness(), &mut prng) {
                Ok(p) => h.update(p.to_bytes()),
                Err(e) => h.update(e.to_string().as_bytes()),
            }
        },
        k @ 1..=3 => {
            match verify_one(&j.case.transcript(), &st, &j.proof, ACTIONS[k - 1]) {
                Ok(m) => {
                    h.update(b"ok");
                    if let Some(v) = mask_vec(&m) {
                        for x in v {
                            h.update(x.as_bytes());
                        }
                    }
                },
                Err(e) => h.update(e.to_string().as_bytes()),
            }
        },
        4 => {
            // clone and drop the shared parameters, read generators through the clone
            let c = shared.clone();
            for g in c.gi_base_iter().take(8).chain(c.hi_base_iter().take(8)) {
                h.update(enc(g));
            }
            drop(c);
        },
        6 => {
            // the serde form: serialise, compare with the byte form, decode again
            match bincode::serialize(&j.proof) {
                Ok(b) => {
                    let mut want = (j.proof.to_bytes().len() as u64).to_le_bytes().to_vec();
                    want.extend_from_slice(&j.proof.to_bytes());
                    h.update(if b == want { b"same".as_slice() } else { b"DIFFERENT".as_slice() });
                    match bincode::deserialize::<Proof>(&b) {
                        Ok(p) => h.update(p.to_bytes()),
                        Err(e) => h.update(e.to_string().as_bytes()),
                    }
                },
                Err(e) => h.update(e.to_string().as_bytes()),
            }
        },
        _ => {
            // a tampered proof must be rejected, concurrently too
            let mut parts = Parts::of(&j.proof);
            parts.r1 = (Scalar::from_canonical_bytes(parts.r1).unwrap() + Scalar::ONE).to_bytes();
            match verify_one(&j.case.transcript(), &st, &parts.to_proof().unwrap(), VerifyAction::VerifyOnly) {
                Ok(_) => h.update(b"accepted"),
                Err(e) => h.update(e.to_string().as_bytes()),
            }
        },
    }
    hex(&h.finalize())
}

fn threads(ctx: &Ctx, rep: &mut Report) {
    let rounds = if ctx.thorough() { 160 } else { 6 };
    let tsan = ctx.flag("profile=tsan");
    for r in 0..rounds {
        let id = 5000 + r;
        if !ctx.mine(id) {
            continue;
        }
        let mut rng = ctx.rng("c18-threads", id as u64);
        let t = [2usize, 4, 8, 16][r % 4];
        let n = [4usize, 8, 2, 16][(r / 4) % 4];
        let ext = 1 + r % 6;
        let cap = 4;
        let shared = params_uncached(n, cap, ext);
        // jobs over the shared parameters
        let njobs = if tsan { 14 } else { 28 };
        let mut jobs = vec![];
        for k in 0..njobs {
            let m = [1usize, 2, 4, 1][k % 4];
            let case = Case::random(Cfg::new(n, m, cap, ext), VALUE_CLASSES[k % 6], PROMISE_CLASSES[k % 5], true, &mut rng);
            let mut prng = FaultRng::new(RngKind::Healthy(rng.next_u64()));
            let st = case.statement_with(&shared, &case.promises, case.seed);
            let proof = match no_panic(|| RangeProof::prove_with_rng(&mut case.transcript(), &st, &case.witness(), &mut prng)) {
                Ok(Ok(p)) => p,
                other => {
                    // the shared parameter object has already served statements of other sizes: the same call on a
                    // freshly constructed, value-identical parameter set decides whether that history matters
                    let fresh = params_uncached(n, cap, ext);
                    let stf = case.statement_with(&fresh, &case.promises, case.seed);
                    let mut prng2 = FaultRng::new(RngKind::Healthy(1));
                    if RangeProof::prove_with_rng(&mut case.transcript(), &stf, &case.witness(), &mut prng2).is_ok() {
                        let why = match other {
                            Ok(Err(e)) => e.to_string(),
                            Err(p) => format!("panic: {p}"),
                            _ => String::new(),
                        };
                        rep.violation(
                            "C18 history-dependence [shared parameter object]",
                            &format!("proving an aggregate of {m} over a parameter object that earlier served statements of other sizes fails ({why}), while the same call over a freshly constructed identical parameter set succeeds"),
                            json!({"tier": if ctx.thorough() {"thorough"} else {"quick"}, "seed": ctx.seed, "leg": "threads", "case": id, "descr": {"bits": n, "ext": ext, "aggregation": m, "capacity": cap}}),
                        );
                    }
                    continue;
                },
            };
            jobs.push(Job { kind: k, case, proof, rng_seed: rng.next_u64() });
        }
        // sequential baseline
        let baseline: Vec<String> = jobs.iter().map(|j| run_job(j, &shared)).collect();
        // concurrent run: every thread runs every job, in its own order, on its own clone of the shared parameters
        let barrier = Arc::new(Barrier::new(t));
        let spans: Vec<Vec<(usize, u64, u64, String)>> = std::thread::scope(|s| {
            let hs: Vec<_> = (0..t)
                .map(|ti| {
                    let jobs = &jobs;
                    let shared = &shared;
                    let barrier = barrier.clone();
                    let mut trng = ctx.rng("c18-thread-order", (id * 100 + ti) as u64);
                    s.spawn(move || {
                        let mine = shared.clone();
                        let mut order: Vec<usize> = (0..jobs.len()).collect();
                        for i in (1..order.len()).rev() {
                            order.swap(i, (trng.next_u32() as usize) % (i + 1));
                        }
                        barrier.wait();
                        let mut out = vec![];
                        for ji in order {
                            // harness-side jitter before the call
                            match trng.next_u32() % 4 {
                                0 => std::thread::yield_now(),
                                1 => std::thread::sleep(std::time::Duration::from_micros((trng.next_u32() % 200) as u64)),
                                _ => {},
                            }
                            let start = TICK.fetch_add(1, Ordering::SeqCst);
                            let d = no_panic(|| run_job(&jobs[ji], &mine)).unwrap_or_else(|p| format!("PANIC: {p}"));
                            let end = TICK.fetch_add(1, Ordering::SeqCst);
                            out.push((ji, start, end, d));
                        }
                        out
                    })
                })
                .collect();
            hs.into_iter().map(|h| h.join().expect("worker thread")).collect()
        });
        rep.eval(&("threads", r, t));
        rep.count("concurrent_rounds", 1);
        rep.max("max_threads", t as u64);
        let replay = json!({"tier": if ctx.thorough() {"thorough"} else {"quick"}, "seed": ctx.seed, "leg": "threads", "case": id, "descr": {"threads": t, "bits": n, "ext": ext, "jobs": jobs.len()}});
        let mut mismatches = 0;
        for sp in &spans {
            for (ji, _, _, d) in sp {
                rep.count("concurrent_results_compared", 1);
                if *d != baseline[*ji] {
                    mismatches += 1;
                    if mismatches == 1 {
                        rep.violation(
                            &format!("C18 concurrent-result-differs [{}]", ["prove", "VerifyOnly", "RecoverAndVerify", "RecoverOnly", "clone-params", "tampered", "serde"][jobs[*ji].kind % 7]),
                            &format!("with {t} threads sharing one parameter object, a call returned a result different from the sequential baseline (job kind {}){}", jobs[*ji].kind % 7, if d.starts_with("PANIC") { format!(": {d}") } else { String::new() }),
                            replay.clone(),
                        );
                    }
                }
            }
        }
        rep.count("concurrent_result_mismatches", mismatches);
        // a parameter object nobody has used yet: every thread's first call over (a clone of) it races the others'
        // first calls - whatever the object builds lazily on first use is built under contention
        {
            let fresh = params_uncached(n, cap, ext);
            let first_barrier = Arc::new(Barrier::new(t));
            let firsts: Vec<Vec<(usize, String)>> = std::thread::scope(|s| {
                let hs: Vec<_> = (0..t)
                    .map(|ti| {
                        let jobs = &jobs;
                        let fresh = &fresh;
                        let b = first_barrier.clone();
                        s.spawn(move || {
                            let mine = if ti % 2 == 0 { fresh.clone() } else { fresh.clone().clone() };
                            b.wait();
                            (0..jobs.len().min(6)).map(|k| { let ji = (ti + k * 5) % jobs.len(); (ji, no_panic(|| run_job(&jobs[ji], &mine)).unwrap_or_else(|p| format!("PANIC: {p}"))) }).collect()
                        })
                    })
                    .collect();
                hs.into_iter().map(|h| h.join().expect("worker thread")).collect()
            });
            rep.count("racing_first_uses_of_a_parameter_object", t as u64);
            for (ji, d) in firsts.iter().flatten() {
                rep.count("concurrent_results_compared", 1);
                if *d != baseline[*ji] {
                    rep.violation(
                        "C18 concurrent-result-differs [first use of a fresh parameter object]",
                        &format!("{t} threads made their first calls over clones of a parameter object nobody had used before; a call returned a result different from the sequential baseline{}", if d.starts_with("PANIC") { format!(": {d}") } else { String::new() }),
                        replay.clone(),
                    );
                    break;
                }
            }
        }
        // how much did the calls actually overlap?
        let mut all: Vec<(usize, usize, u64, u64)> = vec![];
        for (ti, sp) in spans.iter().enumerate() {
            for (ji, a, b, _) in sp {
                all.push((ti, jobs[*ji].kind % 7, *a, *b));
            }
        }
        let mut pairs: std::collections::BTreeSet<(usize, usize)> = std::collections::BTreeSet::new();
        let mut overlaps = 0u64;
        for x in 0..all.len() {
            for y in (x + 1)..all.len() {
                if all[x].0 != all[y].0 && all[x].2 < all[y].3 && all[y].2 < all[x].3 {
                    overlaps += 1;
                    pairs.insert((all[x].1.min(all[y].1), all[x].1.max(all[y].1)));
                }
            }
        }
        rep.count("overlapping_call_pairs", overlaps);
        rep.max("max_distinct_overlapping_kind_pairs", pairs.len() as u64);
        if r < 2 {
            rep.sample("threads", json!({"threads": t, "bits": n, "ext": ext, "jobs": jobs.len(), "overlapping_call_pairs": overlaps, "distinct_kind_pairs": pairs.len()}));
        }
    }
}

// ------------------------------------------------------------------------------------------------
// racing first use of the cached generator tables (fresh processes)
// ------------------------------------------------------------------------------------------------

fn race_child(ctx: &Ctx) -> ! {
    let t: usize = ctx.opt("threads").and_then(|s| s.parse().ok()).unwrap_or(4);
    let rot: usize = ctx.opt("rot").and_then(|s| s.parse().ok()).unwrap_or(0);
    let barrier = Arc::new(Barrier::new(t));
    let hs: Vec<_> = (0..t)
        .map(|ti| {
            let b = barrier.clone();
            std::thread::spawn(move || {
                let ext = 1 + (ti + rot) % 6;
                b.wait();
                // first-ever call in this process
                let pc = ristretto::create_pedersen_gens_with_extension_degree(ExtensionDegree::try_from(ext).unwrap());
                let c = pc.commit(&Scalar::from(5u64), &vec![Scalar::from(7u64); ext]).map(|p| hex(&p.compress().to_bytes())).unwrap_or_default();
                let g: Vec<String> = pc.g_base_vec.iter().map(|p| hex(&p.compress().to_bytes())).collect();
                let gc: Vec<String> = pc.g_base_compressed_vec.iter().map(|p| hex(&p.to_bytes())).collect();
                // and immediately build parameters and prove with them
                let prm = RangeParameters::init(2, 1, pc).expect("params");
                let first = hex(&prm.gi_base_iter().next().unwrap().compress().to_bytes());
                (ext, g, gc, c, first)
            })
        })
        .collect();
    for h in hs {
        let (ext, g, gc, c, first) = h.join().expect("race thread");
        println!("RACE {}", serde_json::to_string(&json!({"ext": ext, "g": g, "gc": gc, "commit": c, "first": first})).unwrap());
    }
    std::process::exit(0)
}

fn race(ctx: &Ctx, rep: &mut Report) {
    let n = if ctx.thorough() { 2000 } else { 64 };
    let n = if ctx.flag("profile=tsan") { n / 4 } else { n };
    let exe = std::env::current_exe().expect("exe");
    let (_, g6) = refbp::ref_ristretto_pedersen(6);
    let want: Vec<String> = g6.iter().map(|p| hex(&p.compress().to_bytes())).collect();
    let (h, _) = refbp::ref_ristretto_pedersen(1);
    for i in 0..n {
        let id = 9000 + i;
        if !ctx.mine(id) {
            continue;
        }
        let t = [2usize, 3, 6, 8, 12, 16][i % 6];
        let out = Command::new(&exe)
            .args(["C18", "--leg", "race-child", &format!("threads={t}"), &format!("rot={}", i / 6)])
            .stdout(Stdio::piped())
            .stderr(Stdio::piped())
            .output();
        let Ok(out) = out else {
            rep.inconclusive("C18: cannot spawn race child".into());
            return;
        };
        let replay = json!({"tier": if ctx.thorough() {"thorough"} else {"quick"}, "seed": ctx.seed, "leg": "race", "case": id, "descr": {"threads": t}});
        rep.eval(&("race", i));
        rep.count("fresh_processes", 1);
        if !out.status.success() {
            let err = String::from_utf8_lossy(&out.stderr);
            let tail: String = err.chars().rev().take(600).collect::<String>().chars().rev().collect();
            rep.violation("C18 race-child-died", &format!("a process racing the first use of the cached generators died ({}): {tail}", out.status), replay.clone());
            continue;
        }
        let txt = String::from_utf8_lossy(&out.stdout);
        let mut seen = 0;
        for l in txt.lines() {
            let Some(j) = l.strip_prefix("RACE ") else { continue };
            let Ok(v) = serde_json::from_str::<serde_json::Value>(j) else { continue };
            seen += 1;
            rep.count("racing_first_calls", 1);
            let ext = v["ext"].as_u64().unwrap_or(0) as usize;
            let g: Vec<String> = v["g"].as_array().map(|a| a.iter().map(|x| x.as_str().unwrap_or("").to_string()).collect()).unwrap_or_default();
            let gc: Vec<String> = v["gc"].as_array().map(|a| a.iter().map(|x| x.as_str().unwrap_or("").to_string()).collect()).unwrap_or_default();
            if g.len() != ext || g != want[..ext.min(6)] || gc != g {
                rep.violation("C18 race-wrong-generators", &format!("a thread racing the first use of the cached blinding generators (degree {ext}, {t} threads) obtained wrong or partially initialised generators"), replay.clone());
            }
            // the commitment made with them
            let mut e = h * Scalar::from(5u64);
            for k in 0..ext.min(6) {
                e += g6[k] * Scalar::from(7u64);
            }
            if v["commit"].as_str() != Some(&hex(&e.compress().to_bytes())) {
                rep.violation("C18 race-wrong-commitment", "a commitment made right after the racing first use is wrong", replay.clone());
            }
        }
        if seen != t {
            rep.violation("C18 race-missing-results", &format!("{seen} of {t} racing threads reported"), replay.clone());
        }
    }
    rep.sample("race", json!({"fresh_processes": n, "threads": [2, 3, 6, 8, 12, 16]}));
}

