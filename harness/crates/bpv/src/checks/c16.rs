//! C16 — decoding and verification never panic, abort or do unbounded work on untrusted input.
//!
//! Parent/child sandbox (I7): the parent spawns this same binary with `--leg <group>-child`; the child writes
//! the id of the case it is about to run to a progress file, runs it under catch_unwind with the allocation
//! tracker and the free-module step counter armed, and reports. A child that dies (abort on allocation
//! failure, stack overflow, double panic) is a violation attributed to the last case id; the parent then
//! restarts the child with that case skipped. A child that exceeds the wall-clock watchdog is INCONCLUSIVE.

use std::{
    io::Write,
    process::{Command, Stdio},
    time::{Duration, Instant},
};

use serde_json::{json, Value};

use crate::common::*;

const CHILD_WATCHDOG_QUICK_S: u64 = 1500;
const CHILD_WATCHDOG_THOROUGH_S: u64 = 9000;

pub fn run(ctx: &Ctx, rep: &mut Report) {
    match ctx.leg.as_str() {
        "fm-child" => child::<crate::fm::FmPoint>(ctx, rep),
        "ris-child" => child::<curve25519_dalek::ristretto::RistrettoPoint>(ctx, rep),
        "asan-selftest" => {
            // a deliberate heap-buffer-overflow read, to confirm that the sanitizer build reports one (never part of a check)
            let v = vec![1u8; 8];
            let p = v.as_ptr();
            let x = unsafe { std::ptr::read_volatile(p.add(9)) };
            println!("selftest read {x}");
            std::process::exit(0);
        },
        "fm" | "ris" => parent(ctx, rep, &ctx.leg.clone()),
        "all" => {
            parent(ctx, rep, "fm");
            parent(ctx, rep, "ris");
        },
        other => {
            eprintln!("unknown C16 leg {other}");
            std::process::exit(3);
        },
    }
}

trait Worker {
    fn count(thorough: bool) -> usize;
    fn case(i: usize, rng: &mut rand_chacha::ChaCha12Rng, thorough: bool) -> (String, Value, usize, usize, usize, Option<String>, crate::spy::MemReport, u64);
    const IS_FM: bool;
}

impl Worker for crate::fm::FmPoint {
    const IS_FM: bool = true;

    fn count(t: bool) -> usize {
        crate::onfm::c16::case_count(t)
    }

    fn case(i: usize, rng: &mut rand_chacha::ChaCha12Rng, t: bool) -> (String, Value, usize, usize, usize, Option<String>, crate::spy::MemReport, u64) {
        let o = crate::onfm::c16::run_case(i, rng, t);
        (o.family.to_string(), o.descr, o.input_bytes, o.table, o.elements, o.panic, o.mem, o.steps)
    }
}

impl Worker for curve25519_dalek::ristretto::RistrettoPoint {
    const IS_FM: bool = false;

    fn count(t: bool) -> usize {
        crate::onris::c16::case_count(t)
    }

    fn case(i: usize, rng: &mut rand_chacha::ChaCha12Rng, t: bool) -> (String, Value, usize, usize, usize, Option<String>, crate::spy::MemReport, u64) {
        let o = crate::onris::c16::run_case(i, rng, t);
        (o.family.to_string(), o.descr, o.input_bytes, o.table, o.elements, o.panic, o.mem, o.steps)
    }
}

/// Linear bounds with generous slack (logical quantities only; wall-clock is never an oracle)
fn mem_bound(input_bytes: usize, table: usize, is_fm: bool) -> usize {
    // Ristretto: decompressed points are 160 bytes per 32-byte element, scalar vectors 32 bytes per generator, a few copies each
    // FmPoint: every element may be a sparse vector over up to 2*table + 8 coordinates (~100 bytes per coordinate with map overhead)
    if is_fm {
        (1 << 22) + 4096 * input_bytes + 1024 * table + 64 * (input_bytes / 32 + 8) * (2 * table + 16) * 16
    } else {
        (1 << 22) + 64 * input_bytes + 2048 * table
    }
}

fn step_bound(elements: usize, table: usize) -> u64 {
    // every proof element is touched O(1) times, each touching at most all coordinates; generators once
    (1 << 16) + 64 * (elements as u64 + 8) * (2 * table as u64 + 16)
}

fn child<W: Worker>(ctx: &Ctx, rep: &mut Report) {
    std::panic::set_hook(Box::new(|_| {})); // panics are caught and reported; keep stderr quiet
    let total = W::count(ctx.thorough());
    let progress = ctx.opt("progress");
    let skip: Vec<usize> = ctx.opt("skip").map(|s| s.split(',').filter_map(|x| x.parse().ok()).collect()).unwrap_or_default();
    let plain = ctx.flag("profile=plain");
    for i in 0..total {
        if !ctx.mine(i) || skip.contains(&i) {
            continue;
        }
        if let Some(p) = &progress {
            let _ = std::fs::write(p, i.to_string());
        }
        let mut rng = ctx.rng(if W::IS_FM { "c16-fm" } else { "c16-ris" }, i as u64);
        let (family, descr, input_bytes, table, elements, panic, mem, steps) = W::case(i, &mut rng, ctx.thorough());
        if family == "skipped" {
            continue;
        }
        if family == "refused_by_constructor" {
            rep.count("invalid_statements_refused_by_constructor", 1);
            continue;
        }
        let leg = if W::IS_FM { "fm" } else { "ris" };
        let replay = json!({"tier": if ctx.thorough() {"thorough"} else {"quick"}, "seed": ctx.seed, "leg": leg, "case": i, "descr": descr, "build": if plain {"plain"} else {"release"}});
        rep.eval(&(leg, i));
        rep.count(&format!("cases_{family}"), 1);
        rep.count("hostile_cases", 1);
        rep.max("max_input_bytes", input_bytes as u64);
        rep.max("max_single_allocation", mem.largest as u64);
        rep.max("max_peak_live_bytes", mem.peak as u64);
        rep.max("max_steps", steps);
        rep.count("allocations_tracked", mem.allocs as u64);
        if let Some(p) = panic {
            let short: String = p.chars().filter(|c| !c.is_ascii_digit()).take(90).collect();
            rep.violation(&format!("C16 panic {family} [{short}]"), &format!("panic on hostile input ({family}): {p}"), replay.clone());
            continue;
        }
        if crate::spy::installed() {
            let bound = mem_bound(input_bytes, table, W::IS_FM);
            if mem.peak > bound || mem.largest > bound || mem.cap_hit {
                rep.violation(
                    &format!("C16 memory {family}"),
                    &format!("memory not proportional to the input: peak {} / largest single request {} bytes for {} input bytes and a {}-generator table (bound {})", mem.peak, mem.largest, input_bytes, table, bound),
                    replay.clone(),
                );
            }
        }
        if W::IS_FM {
            let sb = step_bound(elements, table);
            if steps > sb {
                rep.violation(&format!("C16 steps {family}"), &format!("work not proportional to the input: {steps} group-scalar steps for {elements} elements and a {table}-generator table (bound {sb})"), replay.clone());
            }
        }
        if i % 997 == 0 {
            rep.sample(&format!("{leg}-{family}"), json!({"case": descr, "peak_bytes": mem.peak, "steps": steps}));
        }
    }
}

fn parent(ctx: &Ctx, rep: &mut Report, group: &str) {
    #[allow(non_snake_case)]
    let CHILD_WATCHDOG_S = if ctx.thorough() { CHILD_WATCHDOG_THOROUGH_S } else { CHILD_WATCHDOG_QUICK_S };
    let exe = std::env::current_exe().expect("current exe");
    let dir = std::env::temp_dir().join(format!("bpv-c16-{}-{}-{}", std::process::id(), group, ctx.shard));
    let _ = std::fs::create_dir_all(&dir);
    let progress = dir.join("progress");
    let out = dir.join("part.json");
    let mut skip: Vec<usize> = ctx.only.map(|_| vec![]).unwrap_or_default();
    let mut attempts = 0;
    loop {
        attempts += 1;
        let _ = std::fs::remove_file(&out);
        let _ = std::fs::remove_file(&progress);
        let mut cmd = Command::new(&exe);
        cmd.arg("C16")
            .args(["--tier", if ctx.thorough() { "thorough" } else { "quick" }])
            .args(["--seed", &ctx.seed.to_string()])
            .args(["--shard", &ctx.shard.to_string(), "--nshards", &ctx.nshards.to_string()])
            .args(["--leg", &format!("{group}-child")])
            .args(["--out", out.to_str().unwrap()])
            .arg(format!("progress={}", progress.display()))
            .stdout(Stdio::null())
            .stderr(Stdio::piped());
        if !skip.is_empty() {
            cmd.arg(format!("skip={}", skip.iter().map(|s| s.to_string()).collect::<Vec<_>>().join(",")));
        }
        for e in &ctx.extra {
            cmd.arg(e);
        }
        if let Some(o) = ctx.only {
            // replay of a single case
            cmd.args(["--replay", "/dev/null"]);
            let _ = o;
        }
        let started = Instant::now();
        let mut childp = match cmd.spawn() {
            Ok(c) => c,
            Err(e) => {
                rep.inconclusive(format!("C16: cannot spawn sandbox child: {e}"));
                break;
            },
        };
        let status = loop {
            match childp.try_wait() {
                Ok(Some(s)) => break Some(s),
                Ok(None) => {
                    if started.elapsed() > Duration::from_secs(CHILD_WATCHDOG_S) {
                        let _ = childp.kill();
                        let _ = childp.wait();
                        break None;
                    }
                    std::thread::sleep(Duration::from_millis(50));
                },
                Err(_) => break None,
            }
        };
        let last_case = std::fs::read_to_string(&progress).ok().and_then(|s| s.trim().parse::<usize>().ok());
        match status {
            None => {
                rep.inconclusive(format!("C16 {group}: sandbox child exceeded the {CHILD_WATCHDOG_S}s wall-clock watchdog at case {last_case:?} (inconclusive, not a verdict)"));
                break;
            },
            Some(s) if s.success() => {
                // merge the child's report
                if let Ok(txt) = std::fs::read_to_string(&out) {
                    if let Ok(v) = serde_json::from_str::<Value>(&txt) {
                        merge_child(rep, &v);
                    } else {
                        rep.inconclusive(format!("C16 {group}: unreadable child report"));
                    }
                } else {
                    rep.inconclusive(format!("C16 {group}: child wrote no report"));
                }
                break;
            },
            Some(s) => {
                // abnormal exit: attributed to the last case announced
                let mut stderr = String::new();
                if let Some(mut e) = childp.stderr.take() {
                    use std::io::Read;
                    let _ = e.read_to_string(&mut stderr);
                }
                let tail: String = stderr.chars().rev().take(400).collect::<String>().chars().rev().collect();
                match last_case {
                    Some(c) => {
                        rep.count("child_abnormal_exits", 1);
                        rep.violation(
                            &format!("C16 abort {group}"),
                            &format!("the process died ({s}) while handling hostile case {c}: abort, stack overflow or allocation failure escapes catch_unwind. stderr: {tail}"),
                            json!({"tier": if ctx.thorough() {"thorough"} else {"quick"}, "seed": ctx.seed, "leg": group, "case": c}),
                        );
                        skip.push(c);
                    },
                    None => {
                        rep.inconclusive(format!("C16 {group}: sandbox child died before announcing a case ({s}): {tail}"));
                        break;
                    },
                }
                if attempts > 12 {
                    rep.inconclusive(format!("C16 {group}: too many child restarts"));
                    break;
                }
            },
        }
    }
    let _ = std::fs::remove_dir_all(&dir);
    let _ = std::io::stderr().flush();
}

fn merge_child(rep: &mut Report, v: &Value) {
    rep.evaluations += v["evaluations"].as_u64().unwrap_or(0);
    if let Some(h) = v["distinct_hashes"].as_array() {
        rep.distinct_extra += h.len() as u64;
    }
    if let Some(c) = v["counters"].as_object() {
        for (k, x) in c {
            let n = x.as_u64().unwrap_or(0);
            if k.starts_with("max_") {
                rep.max(k, n);
            } else {
                rep.count(k, n);
            }
        }
    }
    if let Some(s) = v["samples"].as_array() {
        for x in s {
            rep.sample(x["kind"].as_str().unwrap_or("child"), x["case"].clone());
        }
    }
    if let Some(vs) = v["violations"].as_array() {
        for x in vs {
            rep.violation(x["sig"].as_str().unwrap_or("C16"), x["what"].as_str().unwrap_or(""), x["replay"].clone());
        }
    }
    if let Some(ns) = v["notes"].as_array() {
        for x in ns {
            rep.note(x.as_str().unwrap_or("").to_string());
        }
    }
    if let Some(ns) = v["inconclusive"].as_array() {
        for x in ns {
            rep.inconclusive(x.as_str().unwrap_or("").to_string());
        }
    }
}
