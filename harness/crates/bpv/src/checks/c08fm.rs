//! C08 — batch weights observed over the free-module group.
//!
//! The weight of proof i is `w_i = -(scalar the verifier paired with the point B_i)` in the captured final
//! multiscalar multiplication. Monitors: (1) w_i != 0; (2) the ratio w_i / w_j changes whenever a response
//! scalar of proof i or j changes; (3) an adaptive cancellation attack that re-uses the weights observed on
//! the previous verification run never gets a batch of individually invalid proofs accepted, and the
//! captured residual is exactly `w_i*delta_i + w_j*delta_j` on the attacked coordinate.

use curve25519_dalek::scalar::Scalar;
use serde_json::json;
use tari_bulletproofs_plus::range_proof::VerifyAction;

use crate::{
    common::*,
    fm::{self, FmPoint},
    gx::Gx,
    onfm::{c08::{bump_d1, make_batch}, *},
};

struct Observed {
    ok: bool,
    weights: Vec<Scalar>,
    residual: FmPoint,
}

fn observe(ts: &[merlin::Transcript], sts: &[Stmt], proofs: &[Proof], action: VerifyAction) -> Result<Option<Observed>, String> {
    let bs: Vec<FmPoint> = proofs.iter().map(|p| Parts::of(p).to_ref().map(|r| r.b)).collect::<Option<Vec<_>>>().ok_or("undecodable B")?;
    fm::arm();
    let r = no_panic(|| verify_many(ts, sts, proofs, action));
    let log = fm::take();
    let ok = r?.is_ok();
    let Some(call) = log.msm.last() else { return Ok(None) };
    let mut weights = vec![];
    for (idx, b) in bs.iter().enumerate() {
        // members with the same B (the same proof submitted more than once) are told apart by their order
        let copies = bs.iter().filter(|x| *x == b).count();
        let nth = bs[..idx].iter().filter(|x| *x == b).count();
        let pairs: Vec<_> = call.dynamic.iter().filter(|(_, p)| p == b).collect();
        if pairs.len() != copies {
            return Err(format!("B of member {idx} appears {} times in the final multiscalar multiplication, {copies} expected", pairs.len()));
        }
        weights.push(-pairs[nth].0);
    }
    Ok(Some(Observed { ok, weights, residual: call.result.clone() }))
}

pub fn run(ctx: &Ctx, rep: &mut Report) {
    let nb = if ctx.thorough() { 2400 } else { 240 };
    let rounds = if ctx.thorough() { 32 } else { 6 };
    for b in 0..nb {
        let id = b + 1;
        if !ctx.mine(id) {
            continue;
        }
        <FmPoint as Gx>::case_reset();
        clear_params_cache();
        let mut rng = ctx.rng("c08fm", id as u64);
        let n = [2usize, 4, 8, 16, 1][b % 5];
        let ext = 1 + (b % 6);
        let k = 2 + (b % 4);
        let Some((cases, proofs)) = make_batch(n.max(2), ext, k, b, &mut rng) else { continue };
        let ts: Vec<_> = cases.iter().map(|c| c.transcript()).collect();
        // the verifier role varies: public verifier, or the seed owner recovering while verifying (the factors must
        // be bound to the responses in both)
        let action = if b % 2 == 0 { VerifyAction::VerifyOnly } else { VerifyAction::RecoverAndVerify };
        let sts: Vec<Stmt> = cases.iter().map(|c| if b % 4 >= 2 { c.statement() } else { c.statement_public() }).collect();
        let descr = json!({"batch": k, "bits": n.max(2), "ext": ext, "aggregations": cases.iter().map(|c| c.cfg.m).collect::<Vec<_>>(), "mode": action_name(action), "seeded_statements": b % 4 >= 2});
        rep.count(&format!("batches_{}", action_name(action)), 1);
        let replay = |what: &str| json!({"tier": if ctx.thorough() {"thorough"} else {"quick"}, "seed": ctx.seed, "leg": "fm-weights", "case": id, "descr": descr, "step": what});
        // ---- (1) base observation
        let base = match observe(&ts, &sts, &proofs, action) {
            Ok(Some(o)) => o,
            Ok(None) => {
                rep.note("C08: honest batch refused before the final check".into());
                continue;
            },
            Err(e) => {
                rep.violation("C08 weights-unobservable", &e, replay("base"));
                continue;
            },
        };
        rep.eval(&("weights", b));
        rep.count("batches_observed", 1);
        rep.count("weights_observed", base.weights.len() as u64);
        if !base.ok || !base.residual.is_zero() {
            rep.note("C08: honest batch rejected (see C03)".into());
            continue;
        }
        if base.weights.iter().any(|w| *w == Scalar::ZERO) {
            rep.violation("C08 zero-weight", "a proof enters the batch equation with weight zero", replay("base"));
            continue;
        }
        // ---- (2) response sensitivity of every ratio
        for i in 0..k {
            // which response scalar of proof i to change: r1, s1, each d1_k
            for which in 0..(2 + ext) {
                let mut parts = Parts::of(&proofs[i]);
                let slot: &mut [u8; 32] = match which {
                    0 => &mut parts.r1,
                    1 => &mut parts.s1,
                    w => &mut parts.d1[w - 2],
                };
                *slot = (Scalar::from_canonical_bytes(*slot).unwrap() + rand_scalar(&mut rng)).to_bytes();
                let mut pr = proofs.clone();
                pr[i] = parts.to_proof().expect("re-encode");
                let name = match which {
                    0 => "r1".to_string(),
                    1 => "s1".to_string(),
                    w => format!("d1[{}]", w - 2),
                };
                let Ok(Some(o)) = observe(&ts, &sts, &pr, action) else { continue };
                for j in 0..k {
                    if j == i {
                        continue;
                    }
                    rep.eval(&("ratio", b, i, j, which));
                    rep.count("weight_ratios_compared", 1);
                    let before = base.weights[i] * base.weights[j].invert();
                    let after = o.weights[i] * o.weights[j].invert();
                    if before == after {
                        rep.violation(
                            &format!("C08 ratio-insensitive [{}]", name.chars().filter(|c| !c.is_ascii_digit()).collect::<String>()),
                            &format!("the ratio of the batch factors of proofs {i} and {j} did not change when {name} of proof {i} changed{}", if which >= 3 { " (a d1 component beyond the first)" } else { "" }),
                            replay(&format!("ratio {i}/{j} after changing {name}")),
                        );
                    }
                }
                if o.ok {
                    rep.violation("C08 altered-response-accepted", &format!("batch accepted after changing {name} of proof {i}"), replay(&name));
                }
            }
        }
        // ---- (3) adaptive cancellation attack on every pair and coordinate
        for i in 0..k {
            for j in (i + 1)..k {
                for kk in 0..ext {
                    let g_id = sts[0].generators.g_bases()[kk].single_id();
                    let delta_i = rand_scalar(&mut rng);
                    let mut delta_j = -delta_i; // round 0: the equal-weights guess
                    let mut last: Option<Observed> = None;
                    for round in 0..rounds {
                        if let Some(o) = &last {
                            // use the factors the verifier used on the previous run
                            delta_j = -delta_i * o.weights[i] * o.weights[j].invert();
                        }
                        let mut pr = proofs.clone();
                        pr[i] = bump_d1(&proofs[i], kk, &delta_i);
                        pr[j] = bump_d1(&proofs[j], kk, &delta_j);
                        rep.eval(&("attack", b, i, j, kk, round));
                        rep.count("attack_rounds", 1);
                        let o = match observe(&ts, &sts, &pr, action) {
                            Ok(Some(o)) => o,
                            _ => break,
                        };
                        let expect = o.weights[i] * delta_i + o.weights[j] * delta_j;
                        let got = g_id.map(|g| o.residual.coeff(g)).unwrap_or(Scalar::ZERO);
                        if o.ok || o.residual.is_zero() {
                            rep.violation(
                                &format!("C08 cancellation-accepted round{}", if round == 0 { "0" } else { ">0" }),
                                &format!("batch of {k}: offsetting defects on coordinate {kk} of proofs {i} and {j}, computed from the factors observed on the previous run, were accepted in round {round}"),
                                replay(&format!("attack pair ({i},{j}) coordinate {kk} round {round}")),
                            );
                            break;
                        }
                        if got != expect || o.residual.nnz() != 1 {
                            rep.violation(
                                "C08 residual-not-weighted-sum",
                                &format!("the captured residual is not w_i*delta_i + w_j*delta_j on G[{kk}] ({} non-zero coordinates)", o.residual.nnz()),
                                replay(&format!("attack pair ({i},{j}) coordinate {kk} round {round}")),
                            );
                            break;
                        }
                        rep.count("residuals_explained_by_weights", 1);
                        last = Some(o);
                    }
                }
            }
        }
        // ---- (3') perturbations of several response scalars at once. The factors must be bound to the responses as
        // a whole, not to some function of them: (a) a sum-preserving shift of two d1 components of one proof changes
        // every ratio that involves it; (b) the attacker shifts proof 0 by (+w1*t, -w1*t) and proof 1 by (-w0*t, +w0*t)
        // on two coordinates, with the factors of the previous run - each proof invalid, the pair cancelling if the
        // factors did not move
        if ext >= 2 {
            let (ca, cb) = (b % ext, (b + 1) % ext);
            let x = rand_scalar(&mut rng);
            let mut pr = proofs.clone();
            pr[0] = bump_d1(&bump_d1(&proofs[0], ca, &x), cb, &-x);
            if let Ok(Some(o)) = observe(&ts, &sts, &pr, action) {
                for j in 1..k {
                    rep.count("weight_ratios_compared", 1);
                    if base.weights[0] * base.weights[j].invert() == o.weights[0] * o.weights[j].invert() {
                        rep.violation(
                            "C08 ratio-insensitive [d[] sum-preserving pair]",
                            &format!("the ratio of the batch factors of proofs 0 and {j} did not change when d1[{ca}] and d1[{cb}] of proof 0 were shifted by +x and -x"),
                            replay("sum-preserving d1 shift"),
                        );
                        break;
                    }
                }
                if o.ok {
                    rep.violation("C08 altered-response-accepted", "batch accepted after a sum-preserving shift of two d1 components of proof 0", replay("sum-preserving d1 shift"));
                }
            }
            let mut last = base.weights.clone();
            for round in 0..rounds.min(4) {
                let t = rand_scalar(&mut rng);
                let (w0, w1) = (last[0], last[1]);
                let mut pr = proofs.clone();
                pr[0] = bump_d1(&bump_d1(&proofs[0], ca, &(w1 * t)), cb, &-(w1 * t));
                pr[1] = bump_d1(&bump_d1(&proofs[1], ca, &-(w0 * t)), cb, &(w0 * t));
                rep.eval(&("attack-diagonal", b, round));
                rep.count("attack_rounds_multi_coordinate", 1);
                match observe(&ts, &sts, &pr, action) {
                    Ok(Some(o)) => {
                        if o.ok || o.residual.is_zero() {
                            rep.violation(
                                &format!("C08 cancellation-accepted multi-coordinate round{}", if round == 0 { "0" } else { ">0" }),
                                &format!("two individually invalid proofs whose d1 components {ca} and {cb} were shifted in opposite directions, scaled by the other proof's factor of the previous run, were accepted (round {round})"),
                                replay("multi-coordinate attack"),
                            );
                            break;
                        }
                        last = o.weights.clone();
                    },
                    _ => break,
                }
            }
        }
        // ---- (4) the same attack on a batch in which each proof is submitted twice: the copies carry identical
        // defects (so they stay identical), and the attacker sums the factors of the copies observed on the previous run
        if b % 2 == 0 {
            let idx = [0usize, 0, 1, 1];
            let dts: Vec<merlin::Transcript> = idx.iter().map(|i| ts[*i].clone()).collect();
            let dsts: Vec<Stmt> = idx.iter().map(|i| sts[*i].clone()).collect();
            for kk in 0..ext {
                let delta_p = rand_scalar(&mut rng);
                let mut delta_q = -delta_p;
                let mut last: Option<Observed> = None;
                for round in 0..rounds {
                    if let Some(o) = &last {
                        let wq = o.weights[2] + o.weights[3];
                        if wq == Scalar::ZERO {
                            break;
                        }
                        delta_q = -delta_p * (o.weights[0] + o.weights[1]) * wq.invert();
                    }
                    let p2 = bump_d1(&proofs[0], kk, &delta_p);
                    let q2 = bump_d1(&proofs[1], kk, &delta_q);
                    let pr = vec![p2.clone(), p2, q2.clone(), q2];
                    rep.eval(&("attack-duplicates", b, kk, round));
                    rep.count("attack_rounds_with_duplicated_members", 1);
                    let o = match observe(&dts, &dsts, &pr, action) {
                        Ok(Some(o)) => o,
                        Ok(None) => break,
                        Err(e) => {
                            rep.violation("C08 weights-unobservable", &e, replay("duplicated members"));
                            break;
                        },
                    };
                    if o.weights.iter().any(|w| *w == Scalar::ZERO) {
                        rep.violation("C08 zero-weight", "a proof enters the batch equation with weight zero (batch with duplicated members)", replay("duplicated members"));
                        break;
                    }
                    if o.ok || o.residual.is_zero() {
                        rep.violation(
                            &format!("C08 cancellation-accepted duplicated-members round{}", if round == 0 { "0" } else { ">0" }),
                            &format!("batch [P', P', Q', Q'] of individually invalid proofs: offsetting defects on coordinate {kk}, computed from the factors observed on the previous run, were accepted in round {round}"),
                            replay(&format!("attack on duplicated members, coordinate {kk} round {round}")),
                        );
                        break;
                    }
                    last = Some(o);
                }
            }
        }
        rep.sample("fm-weights", descr.clone());
    }
}
