//! C02 monitor 1 — coefficient exactness over the free-module group.
//!
//! The library's verifier is run on a singleton batch (and on small mixed batches) whose proof points and
//! commitments are *fresh formal symbols*; the final multiscalar multiplication is captured at the
//! group-API boundary, giving the residual the verifier compares with the identity as a coefficient
//! vector `Res_lib`. The independent reference evaluates the published relation by explicit folding,
//! `Res_ref`. Oracle: `Res_lib == sum_i w_i * Res_ref_i` coordinate-wise, `w_i = -(scalar paired with B_i) != 0`.
//! Every coordinate (each G_i, H_i, blinding generator, H, A, A1, B, L_j, R_j, V_j) is generically non-zero,
//! so every weight of the verifier's linear combination is compared at a random point.

use std::collections::BTreeMap;

use curve25519_dalek::scalar::Scalar;
use rand_core::RngCore;
use serde_json::json;
use tari_bulletproofs_plus::{range_proof::VerifyAction, range_statement::RangeStatement};

use crate::{
    common::*,
    fm::{self, FmPoint},
    gx::Gx,
    onfm::*,
    refbp::{self, RefProof},
};

#[derive(Clone, Copy, Debug, PartialEq, Eq, Hash)]
enum Family {
    Honest,
    HonestOneReplaced,
    Symbolic,
}

struct Member {
    cfg: Cfg,
    ctx: Context,
    st: Stmt,
    rst: refbp::RefStatement<FmPoint>,
    proof: Proof,
    rp: RefProof<FmPoint>,
    family: Family,
}

fn names(prm: &Params) -> BTreeMap<u64, String> {
    let mut m = BTreeMap::new();
    for (i, g) in prm.gi_base_iter().enumerate() {
        if let Some(id) = g.single_id() {
            m.insert(id, format!("Gvec[{i}]"));
        }
    }
    for (i, g) in prm.hi_base_iter().enumerate() {
        if let Some(id) = g.single_id() {
            m.insert(id, format!("Hvec[{i}]"));
        }
    }
    for (k, g) in prm.g_bases().iter().enumerate() {
        if let Some(id) = g.single_id() {
            m.insert(id, format!("G[{k}]"));
        }
    }
    if let Some(id) = prm.h_base().single_id() {
        m.insert(id, "H".to_string());
    }
    m
}

fn symbolic_member(cfg: Cfg, rng: &mut impl RngCore) -> Option<Member> {
    if cfg.mn() < 2 {
        return None;
    }
    let prm = params(cfg.n, cfg.cap, cfg.ext);
    let commitments: Vec<FmPoint> = (0..cfg.m).map(|_| FmPoint::fresh_symbol()).collect();
    let promises: Vec<Option<u64>> = (0..cfg.m)
        .map(|j| match (j + rng.next_u32() as usize) % 3 {
            0 => None,
            1 => Some(rng.next_u64() % cfg.max_value().max(1)),
            _ => Some(cfg.max_value()),
        })
        .collect();
    let rp = RefProof {
        a: FmPoint::fresh_symbol(),
        a1: FmPoint::fresh_symbol(),
        b: FmPoint::fresh_symbol(),
        r1: rand_scalar(rng),
        s1: rand_scalar(rng),
        d1: (0..cfg.ext).map(|_| rand_scalar(rng)).collect(),
        l: (0..cfg.rounds()).map(|_| FmPoint::fresh_symbol()).collect(),
        r: (0..cfg.rounds()).map(|_| FmPoint::fresh_symbol()).collect(),
    };
    let proof = Parts::from_ref(&rp).to_proof().ok()?;
    let st = RangeStatement::init(prm.clone(), commitments.clone(), promises.clone(), None).ok()?;
    let rst = ref_statement_documented(&prm, cfg.m, &commitments, &promises);
    Some(Member { cfg, ctx: Context::random(rng), st, rst, proof, rp, family: Family::Symbolic })
}

fn honest_member(cfg: Cfg, replace_one: bool, k: usize, rng: &mut impl RngCore) -> Option<Member> {
    let case = Case::random(cfg, VALUE_CLASSES[k % 6], PROMISE_CLASSES[k % 5], false, rng);
    let mut prng = FaultRng::new(RngKind::Healthy(rng.next_u64()));
    let proof = case.prove(&mut prng).ok()?;
    let mut rp = Parts::of(&proof).to_ref()?;
    let mut proof = proof;
    let mut family = Family::Honest;
    let mut commitments = case.commitments.clone();
    if replace_one {
        family = Family::HonestOneReplaced;
        // replace one element by a fresh symbol: the residual then has non-zero coordinates
        let slots = 3 + 2 * rp.l.len() + cfg.m;
        let pick = (rng.next_u32() as usize) % slots;
        let sym = FmPoint::fresh_symbol();
        if pick == 0 {
            rp.a = sym;
        } else if pick == 1 {
            rp.a1 = sym;
        } else if pick == 2 {
            rp.b = sym;
        } else if pick < 3 + 2 * rp.l.len() {
            let j = (pick - 3) / 2;
            if (pick - 3) % 2 == 0 {
                rp.l[j] = sym;
            } else {
                rp.r[j] = sym;
            }
        } else {
            commitments[pick - 3 - 2 * rp.l.len()] = sym;
        }
        if cfg.mn() > 1 {
            proof = Parts::from_ref(&rp).to_proof().ok()?;
        } else {
            // zero rounds: only statement-side alteration is reachable
            rp = Parts::of(&proof).to_ref()?;
            commitments = case.commitments.clone();
            commitments[0] = FmPoint::fresh_symbol();
        }
    }
    let prm = case.params();
    let st = RangeStatement::init(prm.clone(), commitments.clone(), case.promises.clone(), None).ok()?;
    let rst = ref_statement_documented(&prm, cfg.m, &commitments, &case.promises);
    Some(Member { cfg, ctx: case.ctx.clone(), st, rst, proof, rp, family })
}

pub fn run(ctx: &Ctx, rep: &mut Report) {
    let mut cfgs = lattice_systematic(2048, 4096, ctx.thorough());
    let nrand = if ctx.thorough() { 300 } else { 30 };
    cfgs.extend(lattice_random(&mut ctx.rng("c02fm-lattice", 0), nrand, 2048, 4096));
    let reps = if ctx.thorough() { 3 } else { 1 };
    let mut id = 0usize;
    for (k, cfg) in cfgs.iter().enumerate() {
        for fam in [Family::Symbolic, Family::Honest, Family::HonestOneReplaced] {
            for r in 0..reps {
                id += 1;
                if !ctx.mine(id) {
                    continue;
                }
                singleton(ctx, rep, id, *cfg, fam, k + r);
            }
        }
    }
    // inputs whose shape the protocol refuses: the verdict must not depend on group arithmetic
    for (k, cfg) in cfgs.iter().enumerate() {
        for kind in 0..4 {
            id += 1;
            if !ctx.mine(id) || (!ctx.thorough() && (k + kind) % 2 == 1) {
                continue;
            }
            misshaped(ctx, rep, id, *cfg, kind);
        }
    }
    // small mixed batches: shared generator scalars accumulate over members with different n*m and capacities
    let nb = if ctx.thorough() { 600 } else { 60 };
    for b in 0..nb {
        id += 1;
        if !ctx.mine(id) {
            continue;
        }
        batch(ctx, rep, id, b);
    }
}

fn replay(ctx: &Ctx, id: usize, what: serde_json::Value) -> serde_json::Value {
    json!({"tier": if ctx.thorough() {"thorough"} else {"quick"}, "seed": ctx.seed, "leg": "fm-coeff", "case": id, "descr": what})
}

fn singleton(ctx: &Ctx, rep: &mut Report, id: usize, cfg: Cfg, fam: Family, k: usize) {
    <FmPoint as Gx>::case_reset();
    let mut rng = ctx.rng("c02fm", id as u64);
    let mem = match fam {
        Family::Symbolic => symbolic_member(cfg, &mut rng),
        Family::Honest => honest_member(cfg, false, k, &mut rng),
        Family::HonestOneReplaced => honest_member(cfg, true, k, &mut rng),
    };
    let Some(mem) = mem else {
        return;
    };
    check_members(ctx, rep, id, &[mem]);
}

fn batch(ctx: &Ctx, rep: &mut Report, id: usize, b: usize) {
    <FmPoint as Gx>::case_reset();
    let mut rng = ctx.rng("c02fm-batch", id as u64);
    let n = BITS[(rng.next_u32() % 5) as usize]; // 1..16
    let ext = 1 + (rng.next_u32() % 6) as usize;
    let k = 2 + (rng.next_u32() % 3) as usize;
    let mut mems = vec![];
    for i in 0..k {
        let m = 1usize << (rng.next_u32() % 4);
        let cap = (m << (rng.next_u32() % 3)).min(32);
        let cfg = Cfg::new(n, m, cap, ext);
        let mem = if (b + i) % 3 == 0 { honest_member(cfg, false, b + i, &mut rng) } else { symbolic_member(cfg, &mut rng) };
        if let Some(mem) = mem.or_else(|| honest_member(cfg, true, b + i, &mut rng)) {
            mems.push(mem);
        }
    }
    if mems.len() >= 2 {
        check_members(ctx, rep, id, &mems);
    }
}

fn check_members(ctx: &Ctx, rep: &mut Report, id: usize, mems: &[Member]) {
    let descr = json!({
        "members": mems.iter().map(|m| json!({"cfg": m.cfg.json(), "family": format!("{:?}", m.family), "promises": m.rst.promises})).collect::<Vec<_>>(),
    });
    let key: Vec<(Cfg, Family, Vec<Option<u64>>)> = mems.iter().map(|m| (m.cfg, m.family, m.rst.promises.clone())).collect();
    let sig_cfg = if mems.len() == 1 {
        format!("bits={} m={} cap={} ext={} {:?}", mems[0].cfg.n, mems[0].cfg.m, mems[0].cfg.cap, mems[0].cfg.ext, mems[0].family)
    } else {
        format!("batch of {}", mems.len())
    };
    let ts: Vec<_> = mems.iter().map(|m| m.ctx.transcript()).collect();
    let sts: Vec<Stmt> = mems.iter().map(|m| m.st.clone()).collect();
    let proofs: Vec<Proof> = mems.iter().map(|m| m.proof.clone()).collect();
    fm::arm();
    merlin::probe::arm();
    let res = no_panic(|| verify_many(&ts, &sts, &proofs, VerifyAction::VerifyOnly));
    let events = merlin::probe::take();
    let log = fm::take();
    // the challenges the library itself drew, per member (the comparison is about the relation, not the layout)
    let observed = observed_challenges(&events);
    rep.eval(&("coeff", key));
    let lib_ok = match res {
        Err(p) => {
            rep.violation(&format!("C02 verify-panic coeff {sig_cfg}"), &format!("verifier panicked: {p}"), replay(ctx, id, descr));
            return;
        },
        Ok(r) => r.is_ok(),
    };
    let Some(call) = log.msm.last() else {
        // refused before the final check: only legitimate for shapes the reference refuses too
        let shapes_ok = mems.iter().all(|m| refbp::ref_shape(&m.rst, &m.rp) == refbp::Shape::Ok);
        if shapes_ok {
            rep.violation(
                &format!("C02 no-final-check {sig_cfg}"),
                "verifier returned without performing the final multiscalar check on a well-shaped input",
                replay(ctx, id, descr),
            );
        }
        return;
    };
    rep.count("final_msm_captured", 1);
    // weights: the scalar paired with each member's B
    let mut expected = FmPoint::default();
    let mut weights = vec![];
    for (mi, m) in mems.iter().enumerate() {
        let pairs: Vec<&(Scalar, FmPoint)> = call.dynamic.iter().filter(|(_, p)| *p == m.rp.b).collect();
        if pairs.len() != 1 {
            rep.violation(
                &format!("C02 B-not-found {sig_cfg}"),
                &format!("proof element B appears {} times in the verifier's final multiscalar multiplication", pairs.len()),
                replay(ctx, id, descr.clone()),
            );
            return;
        }
        let w = -pairs[0].0;
        if w == Scalar::ZERO {
            rep.violation(&format!("C02 zero-weight {sig_cfg}"), "a proof enters the final check with weight zero", replay(ctx, id, descr.clone()));
            return;
        }
        let Some(ch) = observed.get(mi).and_then(|g| as_challenges(g, m.rp.l.len())) else {
            rep.violation(&format!("C02 challenges-not-drawn {sig_cfg}"), "the verifier reached its final check without drawing the y, z, e_j, e challenges of a member", replay(ctx, id, descr.clone()));
            return;
        };
        if ch.y == Scalar::ZERO || ch.z == Scalar::ZERO || ch.e == Scalar::ZERO || ch.rounds.iter().any(|c| *c == Scalar::ZERO) {
            rep.note("C02: a zero challenge was drawn (probability 2^-252)".into());
            return;
        }
        rep.count("challenges_observed", (3 + m.rp.l.len()) as u64);
        let rr = refbp::ref_residual_with(&m.rst, &m.rp, &ch, 2);
        expected.axpy(&w, &rr);
        weights.push(w);
    }
    // static part: count equals the table size, everything beyond the largest member's 2*n*m is zero
    let max_mn = mems.iter().map(|m| m.cfg.mn()).max().unwrap_or(0);
    let pad_ok = call.static_scalars.len() == call.table_len && call.static_scalars[(2 * max_mn).min(call.static_scalars.len())..].iter().all(|s| *s == Scalar::ZERO);
    if !pad_ok {
        rep.violation(
            &format!("C02 padding {sig_cfg}"),
            &format!("static scalars: {} for a table of {}, or a non-zero scalar on a padded generator", call.static_scalars.len(), call.table_len),
            replay(ctx, id, descr.clone()),
        );
    }
    let coords = call.result.nnz().max(expected.nnz());
    rep.count("coefficients_compared", coords as u64);
    rep.count("nonzero_residual_coordinates", call.result.nnz() as u64);
    if mems.len() > 1 {
        rep.count("batches_compared", 1);
    }
    if call.result != expected {
        // name the differing coordinates
        let nm = names(&mems.iter().max_by_key(|m| m.cfg.n * m.cfg.cap).unwrap().st.generators);
        let mut diff = vec![];
        let mut ids: Vec<u64> = call.result.0.keys().chain(expected.0.keys()).copied().collect();
        ids.sort_unstable();
        ids.dedup();
        for i in ids {
            if call.result.coeff(i) != expected.coeff(i) {
                diff.push(nm.get(&i).cloned().unwrap_or_else(|| format!("symbol#{}", i.wrapping_sub(fm::SYMBOL_BASE))));
            }
        }
        let classes: std::collections::BTreeSet<String> = diff.iter().map(|d| d.chars().filter(|c| !c.is_ascii_digit()).collect()).collect();
        rep.violation(
            &format!("C02 coefficient-mismatch {sig_cfg} on {:?}", classes),
            &format!(
                "the verifier's linear combination differs from the published relation on {} of {} coordinates, e.g. {:?}",
                diff.len(),
                coords,
                &diff[..diff.len().min(8)]
            ),
            replay(ctx, id, descr.clone()),
        );
    }
    // verdict consistency: accepted iff the residual vanishes
    if lib_ok != call.result.is_zero() {
        rep.violation(&format!("C02 verdict-vs-residual {sig_cfg}"), "verdict disagrees with the captured residual", replay(ctx, id, descr.clone()));
    }
    let fam = format!("{:?}{}", mems[0].family, if mems.len() > 1 { "-batch" } else { "" });
    rep.sample(&fam, json!({"descr": descr, "coordinates_compared": coords, "residual_nonzero_coordinates": call.result.nnz(), "lib_accepts": lib_ok,
        "weights_nonzero": weights.len()}));
}

/// Proofs whose shape the published protocol refuses outright (round count != log2(bits*aggregation), d1 length
/// != extension degree, promise that does not fit the bit length). A verifier that enforces *exactly* the BP+
/// relation must refuse them whatever their content; observable: `Err`, and no final multiscalar multiplication
/// (if the final check runs, the verdict depends on the content, i.e. some other relation is being evaluated).
fn misshaped(ctx: &Ctx, rep: &mut Report, id: usize, cfg: Cfg, kind: usize) {
    <FmPoint as Gx>::case_reset();
    let mut rng = ctx.rng("c02fm-shape", id as u64);
    let Some(mem) = symbolic_member(cfg, &mut rng) else { return };
    let prm = params(cfg.n, cfg.cap, cfg.ext);
    let mut rp = mem.rp.clone();
    let mut promises = mem.rst.promises.clone();
    let name = match kind {
        0 => {
            rp.l.push(FmPoint::fresh_symbol());
            rp.r.push(FmPoint::fresh_symbol());
            "one folding round too many"
        },
        1 => {
            if rp.l.len() < 2 {
                return;
            }
            rp.l.pop();
            rp.r.pop();
            "one folding round too few"
        },
        2 => {
            if cfg.ext == 6 {
                rp.d1.pop();
            } else {
                rp.d1.push(rand_scalar(&mut rng));
            }
            "d1 length differs from the extension degree"
        },
        _ => {
            if cfg.n >= 64 {
                return;
            }
            promises[cfg.m - 1] = Some(1u64 << cfg.n);
            "promise = 2^bits"
        },
    };
    let Ok(proof) = Parts::from_ref(&rp).to_proof() else { return };
    let Ok(st) = RangeStatement::init(prm.clone(), mem.rst.commitments.clone(), promises.clone(), None) else { return };
    // alone, or as the first / middle / last member of a small batch of otherwise well-shaped members
    let others = (id / 4) % 4; // 0 = alone
    let position = if others == 0 { 0 } else { [0usize, others, others / 2][(id / 16) % 3] };
    let mut ts = vec![];
    let mut sts = vec![];
    let mut proofs = vec![];
    for i in 0..=others {
        if i == position {
            ts.push(mem.ctx.transcript());
            sts.push(st.clone());
            proofs.push(proof.clone());
        } else {
            let m = [1usize, 2, 1][i % 3].min(cfg.cap);
            let Some(o) = symbolic_member(Cfg::new(cfg.n, m, cfg.cap, cfg.ext), &mut rng).or_else(|| honest_member(Cfg::new(cfg.n, m, cfg.cap, cfg.ext), false, i, &mut rng)) else { return };
            ts.push(o.ctx.transcript());
            sts.push(o.st.clone());
            proofs.push(o.proof.clone());
        }
    }
    let descr = json!({"cfg": cfg.json(), "shape": name, "batch_size": others + 1, "position": position});
    let name = &format!("{name}{}", if others == 0 { "" } else if position == others { ", last batch member" } else if position == 0 { ", first batch member" } else { ", middle batch member" });
    fm::arm();
    let res = no_panic(|| verify_many(&ts, &sts, &proofs, VerifyAction::VerifyOnly).map(|_| ()));
    let log = fm::take();
    rep.eval(&("shape", cfg, kind, others, position));
    rep.count("misshaped_inputs", 1);
    if others > 0 {
        rep.count("misshaped_inputs_inside_batches", 1);
    }
    match res {
        Err(p) => rep.violation(&format!("C02 verify-panic shape [{name}]"), &format!("verifier panicked: {p}"), replay(ctx, id, descr)),
        Ok(Ok(())) => rep.violation(&format!("C02 misshaped-accepted [{name}]"), &format!("verifier accepted a proof with {name}"), replay(ctx, id, descr)),
        Ok(Err(_)) => {
            if !log.msm.is_empty() {
                rep.violation(
                    &format!("C02 shape-not-enforced [{name}]"),
                    &format!("for a proof with {name} the verifier still evaluated its final multiscalar check: the verdict depends on the proof's content, so a relation other than the published one is being enforced"),
                    replay(ctx, id, descr),
                );
            }
        },
    }
}
