//! C20 — secrets are wiped from heap memory before it is released. Ristretto only (an FmPoint commitment stores
//! blinding factors as coordinates and would be a harness-made false alarm); merlin probe disarmed.
//!
//! The scanning global allocator (I4) is armed only around library calls and drops of library-owned objects; the
//! harness keeps its own copies of every secret alive across the window. Deciding patterns: 64-bit values (only
//! high-entropy ones), 32-byte blinding factors, the seed, recovered mask components. Seed-derived nonces are
//! scanned too but only reported as a NOTE (they are "created from" secrets in a looser sense).
//!
//! Stale stack bytes need care. Moving a struct copies its padding, and `zeroize` ends the wiping of an `Option` with
//! `ptr::write_volatile(self, None)`, which copies the undefined payload bytes of a stack temporary: both carry
//! whatever the stack slot held before into heap blocks that never stored a secret. The second full thorough run
//! reported `drop Box<RangeStatement> still held a value` in 2 of 24000 cases (release build): the dropped
//! statement's seed slot held pointer-like garbage followed by `01 7b 5d cd cd ff 5f c3` - seven stale bytes of the
//! value next to a byte equal to its low byte. Three defences: the stack below the window is overwritten with zeros
//! before the scanner is armed (the harness's own copies of the secrets cannot be picked up); every byte of a
//! registered 64-bit value is >= 0x80 (no coincidence with tags, lengths, small integers, zeroised memory or the top
//! byte of canonical scalars); and a value hit is reported only if the same window hits again in two re-runs of the
//! case with other values - a buffer that really holds the values is released in every run.

use std::mem::MaybeUninit;

use curve25519_dalek::scalar::Scalar;
use rand_core::RngCore;
use serde_json::{json, Value};
use tari_bulletproofs_plus::{
    commitment_opening::CommitmentOpening,
    extended_mask::ExtendedMask,
    range_proof::{RangeProof, VerifyAction},
    range_witness::RangeWitness,
};

use crate::{common::*, onris::*, refbp, spy};

const KIND_NAMES: [&str; 6] = ["value", "blinding factor", "seed", "mask", "seed-derived nonce", "canary"];

struct Win<'a> {
    rep: &'a mut Report,
    ctx: &'a Ctx,
    id: usize,
    descr: Value,
    profile: String,
    /// false: hits are reported as a NOTE only (situations the property does not name)
    deciding: bool,
    /// windows in which a 64-bit value pattern was seen: (window name, what, replay); confirmed by re-runs before reporting
    value_hits: Vec<(String, String, Value)>,
}

/// Overwrite the stack below the caller with zeros, so that stale bytes the harness left there (copies of the very
/// secrets it registered) cannot be picked up as padding / uninitialised-payload garbage by code run in the window
#[inline(never)]
fn scrub_stack() {
    let mut a = [0u8; 192 * 1024];
    for chunk in a.chunks_mut(64) {
        unsafe { std::ptr::write_volatile(chunk.as_mut_ptr(), 0) };
    }
    unsafe { std::ptr::write_bytes(a.as_mut_ptr(), 0, a.len()) };
    std::hint::black_box(&mut a);
}

impl<'a> Win<'a> {
    /// Run `f` with the scanner armed; classify what it saw
    fn window<T>(&mut self, name: &str, f: impl FnOnce() -> T) -> T {
        let _ = spy::take_report();
        scrub_stack();
        spy::arm();
        let r = f();
        spy::disarm();
        let rp = spy::take_report();
        self.rep.eval(&(self.id, name.to_string(), self.profile.clone()));
        self.rep.count("windows", 1);
        self.rep.count("blocks_scanned", rp.frees as u64);
        self.rep.count("bytes_scanned", rp.bytes as u64);
        self.rep.count(&format!("window_{}", name.split(' ').next().unwrap_or("x")), 1);
        let replay = json!({"tier": if self.ctx.thorough() {"thorough"} else {"quick"}, "seed": self.ctx.seed, "leg": self.ctx.leg, "case": self.id, "build": self.profile, "descr": self.descr, "window": name});
        for kind in [spy::KIND_VALUE, spy::KIND_BLINDING, spy::KIND_SEED, spy::KIND_MASK] {
            let n = rp.hits[kind as usize];
            if n > 0 && !self.deciding {
                self.rep.count("diagnostic_other_hits", n as u64);
                self.rep.note(format!("C20 diagnostic (non-deciding, outside the situations the property names): `{name}` released a block still holding a {} (build {})", KIND_NAMES[kind as usize], self.profile));
            } else if n > 0 {
                let sizes: Vec<usize> = rp.records.iter().filter(|r| r.0 == kind).map(|r| r.1).collect();
                let wname: String = name.chars().filter(|c| !c.is_ascii_digit()).collect();
                if kind == spy::KIND_VALUE {
                    self.value_hits.push((
                        name.to_string(),
                        format!("{n} heap block(s) released during `{name}` still held a {} (block sizes {:?}, build {}; seen again in two re-runs of the case with other values)", KIND_NAMES[kind as usize], &sizes[..sizes.len().min(6)], self.profile),
                        replay.clone(),
                    ));
                    continue;
                }
                self.rep.violation(
                    &format!("C20 leak {} [{}]", KIND_NAMES[kind as usize], wname),
                    &format!("{n} heap block(s) released during `{name}` still held a {} (block sizes {:?}, build {})", KIND_NAMES[kind as usize], &sizes[..sizes.len().min(6)], self.profile),
                    replay.clone(),
                );
            }
        }
        let nn = rp.hits[spy::KIND_NONCE as usize];
        if nn > 0 {
            self.rep.count("diagnostic_nonce_hits", nn as u64);
            self.rep.note(format!("C20 diagnostic (non-deciding): released blocks held seed-derived nonces during `{}` (build {})", name.split(' ').next().unwrap_or(""), self.profile));
        }
        r
    }
}

pub fn run(ctx: &Ctx, rep: &mut Report) {
    if !spy::installed() {
        rep.inconclusive("C20: this build has no scanning allocator".into());
        return;
    }
    spy::set_wipe_always(true);
    let profile = ctx.opt("profile").unwrap_or_else(|| "release".into());
    selftest(ctx, rep, &profile);
    let n_cases = if ctx.thorough() { 8000 } else { 64 };
    for c in 0..n_cases {
        let id = c + 1;
        if !ctx.mine(id) {
            continue;
        }
        one(ctx, rep, id, c, &profile);
    }
}

/// The scanner must see a planted un-wiped secret (and only that)
fn selftest(ctx: &Ctx, rep: &mut Report, profile: &str) {
    spy::clear_patterns();
    let canary: Vec<u8> = (0..32u8).map(|i| i.wrapping_mul(91).wrapping_add(17)).collect();
    spy::add_pattern(&canary, spy::KIND_CANARY);
    let planted = canary.clone();
    let wiped = { let mut w = canary.clone(); w.push(1); w };
    let _ = spy::take_report();
    spy::arm();
    drop(planted);
    let mut w = wiped;
    for b in w.iter_mut() {
        unsafe { std::ptr::write_volatile(b, 0) };
    }
    drop(w);
    spy::disarm();
    let r = spy::take_report();
    rep.count("scanner_selftests", 1);
    if r.hits[spy::KIND_CANARY as usize] != 1 || r.frees < 2 {
        rep.inconclusive(format!("C20: scanner self-test failed in build {profile}: {} canary hits in {} released blocks (expected exactly 1 of >= 2)", r.hits[spy::KIND_CANARY as usize], r.frees));
    }
    let _ = ctx;
}

fn one(ctx: &Ctx, rep: &mut Report, id: usize, c: usize, profile: &str) {
    let hits = one_salted(ctx, rep, id, c, profile, 0);
    if hits.is_empty() {
        return;
    }
    // a 64-bit value pattern was seen in a released block: the same windows must hit again with other values
    rep.count("value_hits_raw", hits.len() as u64);
    let mut confirmed: Vec<(String, String, Value)> = hits;
    for salt in 1..=2u64 {
        let mut scratch = Report::new("C20");
        let again = one_salted(ctx, &mut scratch, id, c, profile, salt);
        rep.count("confirmation_reruns", 1);
        confirmed.retain(|(w, _, _)| again.iter().any(|(w2, _, _)| w2 == w));
    }
    if confirmed.is_empty() {
        rep.count("value_hits_not_reproduced", 1);
        rep.note(format!("C20: a 64-bit value pattern seen in a released block was not seen again when the case was re-run with other values: stale stack bytes in struct padding next to a coincidentally equal byte, not a buffer holding values (build {profile})"));
    }
    for (w, what, replay) in confirmed {
        let wname: String = w.chars().filter(|c| !c.is_ascii_digit()).collect();
        rep.violation(&format!("C20 leak value [{wname}]"), &what, replay);
    }
}

fn one_salted(ctx: &Ctx, rep: &mut Report, id: usize, c: usize, profile: &str, salt: u64) -> Vec<(String, String, Value)> {
    clear_params_cache();
    let mut rng = ctx.rng("c20", id as u64);
    // 64-bit values only where they are high-entropy; otherwise values are not registered as patterns
    let n = [64usize, 64, 8, 16, 32, 64, 4, 64][c % 8];
    let m = [1usize, 1, 2, 1, 4, 2, 1, 1][(c / 8 + c) % 8];
    let ext = 1 + (c / 2) % 6;
    let cap = m << (c % 2);
    let cfg = Cfg::new(n, m, cap, ext);
    let seeded = m == 1 && c % 3 != 2;
    // registered (64-bit) values: every byte >= 0x80; `salt` gives the confirmation re-runs other values
    let values: Vec<u64> = (0..m)
        .map(|j| {
            if n == 64 {
                (rng.next_u64() ^ SplitMix64(salt.wrapping_mul(0x9E37_79B9_7F4A_7C15) ^ j as u64).next().wrapping_mul(salt.min(1))) | 0x8080_8080_8080_8080
            } else {
                pick_value(ValueClass::RandomHigh, n, &mut rng)
            }
        })
        .collect();
    let promises: Vec<Option<u64>> = (0..m).map(|j| if (j + c) % 3 == 0 { Some(values[j] / 3) } else { None }).collect();
    let seed = if seeded { Some(rand_scalar(&mut rng)) } else { None };
    let case = Case::build(cfg, values.clone(), promises, seed, Context::random(&mut rng), &mut rng);
    // ---- patterns
    spy::clear_patterns();
    if n == 64 {
        for v in &values {
            spy::add_pattern(&v.to_le_bytes(), spy::KIND_VALUE);
        }
    }
    for b in case.blindings.iter().flatten() {
        spy::add_pattern(b.as_bytes(), spy::KIND_BLINDING);
    }
    if let Some(s) = seed {
        spy::add_pattern(s.as_bytes(), spy::KIND_SEED);
        for k in 0..ext {
            for l in ["alpha", "d", "eta"] {
                spy::add_pattern(refbp::ref_nonce(&s, l, None, Some(k)).as_bytes(), spy::KIND_NONCE);
            }
            for j in 0..cfg.rounds() {
                for l in ["dL", "dR"] {
                    spy::add_pattern(refbp::ref_nonce(&s, l, Some(j), Some(k)).as_bytes(), spy::KIND_NONCE);
                }
            }
        }
    }
    rep.count("patterns_registered", spy::pattern_count() as u64);
    let descr = json!({"cfg": cfg.json(), "seeded": seeded, "values_registered": n == 64});
    let mut w = Win { rep, ctx, id, descr: descr.clone(), profile: profile.to_string(), deciding: true, value_hits: vec![] };
    // ---- prove
    let st = case.statement();
    let wit = case.witness();
    let mut prng = FaultRng::new(RngKind::Healthy(rng.next_u64()));
    let mut t = case.transcript();
    let proof = w.window("prove", || RangeProof::prove_with_rng(&mut t, &st, &wit, &mut prng));
    let Ok(proof) = proof else {
        w.rep.note("C20: prover refused a valid case (see C01)".into());
        return std::mem::take(&mut w.value_hits);
    };
    // a prover call that fails half-way (invalid witness at the last position): temporaries are released on the error path
    {
        let mut bad = case.clone();
        let last = m - 1;
        bad.blindings[last][0] += Scalar::ONE;
        let badw = bad.witness();
        let mut t2 = case.transcript();
        let mut prng2 = FaultRng::new(RngKind::AllZero);
        let _ = w.window("prove refused (invalid opening)", || RangeProof::prove_with_rng(&mut t2, &st, &badw, &mut prng2));
        drop(badw);
    }
    // ... refused because a value is below its promise, at the first / middle / last position (the prover has already
    // worked through the earlier openings), and because the first opening is wrong
    {
        let mut pos = vec![0usize, m / 2, m - 1];
        pos.dedup();
        for j in pos {
            if values[j] == u64::MAX {
                continue;
            }
            let mut pr: Vec<Option<u64>> = case.promises.clone();
            pr[j] = Some(values[j] + 1);
            let st_bad = case.statement_with(&case.params(), &pr, seed);
            let mut t2 = case.transcript();
            let mut prng2 = FaultRng::new(RngKind::Healthy(rng.next_u64()));
            let r = w.window(&format!("prove refused (promise above value at position {})", if j == 0 { "first" } else if j == m - 1 { "last" } else { "middle" }), || {
                RangeProof::prove_with_rng(&mut t2, &st_bad, &wit, &mut prng2)
            });
            if r.is_ok() {
                w.rep.note("C20: prover accepted a value below its promise (see C06 / C07)".into());
            }
            drop(r);
        }
        let mut bad = case.clone();
        bad.blindings[0][ext - 1] += Scalar::ONE;
        let badw = bad.witness();
        let mut t2 = case.transcript();
        let mut prng2 = FaultRng::new(RngKind::Healthy(rng.next_u64()));
        let _ = w.window("prove refused (invalid first opening)", || RangeProof::prove_with_rng(&mut t2, &st, &badw, &mut prng2));
        drop(badw);
        if m >= 2 {
            // fewer openings than commitments
            let shortw = RangeWitness::init((0..m / 2).map(|j| CommitmentOpening::new(values[j], case.blindings[j].clone())).collect()).unwrap();
            let mut t2 = case.transcript();
            let mut prng2 = FaultRng::new(RngKind::Healthy(rng.next_u64()));
            let _ = w.window("prove refused (too few openings)", || RangeProof::prove_with_rng(&mut t2, &st, &shortw, &mut prng2));
            w.window("drop RangeWitness (short)", move || drop(shortw));
        }
    }
    // ---- verify with recovery (both modes), success and failure paths
    let ts = [case.transcript()];
    let sts = [st.clone()];
    let proofs = [proof.clone()];
    for action in [VerifyAction::RecoverAndVerify, VerifyAction::RecoverOnly] {
        let mut tsm = ts.clone();
        let masks = w.window(&format!("verify {}", action_name(action)), || RangeProof::verify_batch(&mut tsm, &sts, &proofs, action));
        match masks {
            Ok(masks) => {
                if seeded && mask_vec(&masks[0]) != Some(case.blindings[0].clone()) {
                    w.rep.note("C20: recovered mask differs from the blinding vector (see C09)".into());
                }
                // dropping the returned masks releases the mask vectors
                w.window("drop returned masks", move || drop(masks));
            },
            Err(_) => w.rep.note("C20: honest proof rejected (see C01)".into()),
        }
    }
    if cfg.mn() > 1 {
        // the final check fails after the mask has been recovered
        let mut parts = Parts::of(&proof);
        parts.r1 = (Scalar::from_canonical_bytes(parts.r1).unwrap() + Scalar::ONE).to_bytes();
        let bad = [parts.to_proof().unwrap()];
        let mut tsm = ts.clone();
        let r = w.window("verify RecoverAndVerify, proof fails the final check", || RangeProof::verify_batch(&mut tsm, &sts, &bad, VerifyAction::RecoverAndVerify));
        drop(r);
        // a later batch member is refused after an earlier member's mask has been recovered
        let mut p2 = Parts::of(&proof);
        p2.lr.pop();
        if let Ok(short) = p2.to_proof() {
            let mut tsm = vec![case.transcript(), case.transcript()];
            let sts2 = vec![st.clone(), st.clone()];
            let pr2 = vec![proof.clone(), short];
            let r = w.window("verify RecoverAndVerify, second batch member refused", || RangeProof::verify_batch(&mut tsm, &sts2, &pr2, VerifyAction::RecoverAndVerify));
            drop(r);
        }
    }
    // ---- the same work on a worker thread, observed through the thread's exit: whatever the library keeps per thread
    // (scratch buffers, caches) is released when the thread ends. The closure borrows the statement and witness: moving
    // them into a boxed closure would leave the harness's own copy of the inline seed in that box.
    {
        let rs = rng.next_u64();
        let (st_ref, wit_ref, prf_ref) = (&st, &wit, &proof);
        let tt = case.transcript();
        w.window("prove and recover on a worker thread, through its exit", || {
            std::thread::scope(|sc| {
                let h = sc.spawn(|| {
                    let mut prng = FaultRng::new(RngKind::Healthy(rs));
                    let p2 = RangeProof::prove_with_rng(&mut tt.clone(), st_ref, wit_ref, &mut prng);
                    let m1 = RangeProof::verify_batch(&mut [tt.clone()], std::slice::from_ref(st_ref), std::slice::from_ref(prf_ref), VerifyAction::RecoverAndVerify);
                    let m2 = RangeProof::verify_batch(&mut [tt.clone()], std::slice::from_ref(st_ref), std::slice::from_ref(prf_ref), VerifyAction::RecoverOnly);
                    drop((p2, m1, m2));
                });
                let _ = h.join();
            });
        });
    }
    // ---- drops of the owning types (and of clones)
    {
        let o = CommitmentOpening::new(values[0], case.blindings[0].clone());
        let o2 = o.clone();
        w.window("drop CommitmentOpening", move || drop(o));
        w.window("drop cloned CommitmentOpening", move || drop(o2));
        let wit2 = wit.clone();
        w.window("drop cloned RangeWitness", move || drop(wit2));
        let wit3 = RangeWitness::init((0..m).map(|j| CommitmentOpening::new(values[j], case.blindings[j].clone())).collect()).unwrap();
        w.window("drop RangeWitness", move || drop(wit3));
        // openings dropped outside a witness: in a Vec, in a Box, and by a witness constructor that refuses them
        let ov: Vec<CommitmentOpening> = (0..m).map(|j| CommitmentOpening::new(values[j], case.blindings[j].clone())).collect();
        w.window("drop Vec<CommitmentOpening>", move || drop(ov));
        let ob = Box::new(CommitmentOpening::new(values[0], case.blindings[0].clone()));
        w.window("drop Box<CommitmentOpening>", move || drop(ob));
        let mut odd: Vec<CommitmentOpening> = (0..m).map(|j| CommitmentOpening::new(values[j], case.blindings[j].clone())).collect();
        odd.push(CommitmentOpening::new(values[0], vec![case.blindings[0][0]; ext % 6 + 1]));
        w.window("drop openings refused by RangeWitness::init", move || {
            let _ = RangeWitness::init(odd);
        });
        // a witness built from a vector with spare capacity
        let mut slack: Vec<CommitmentOpening> = Vec::with_capacity(m + 5);
        for j in 0..m {
            slack.push(CommitmentOpening::new(values[j], case.blindings[j].clone()));
        }
        let wslack = w.window("RangeWitness::init from a vector with spare capacity", move || RangeWitness::init(slack));
        if let Ok(ws) = wslack {
            w.window("drop RangeWitness (spare capacity)", move || drop(ws));
        }
        let mask = ExtendedMask::assign(ext_of(ext), case.blindings[0].clone()).unwrap();
        // comparing masks (the `assert_eq!(masks, recovered)` idiom) must not leave copies behind either
        {
            let same = ExtendedMask::assign(ext_of(ext), case.blindings[0].clone()).unwrap();
            let mut other_bl = case.blindings[0].clone();
            other_bl[ext - 1] += Scalar::ONE;
            let other = ExtendedMask::assign(ext_of(ext), other_bl).unwrap();
            let pair = vec![Some(ExtendedMask::assign(ext_of(ext), case.blindings[0].clone()).unwrap()), None];
            let pair2 = vec![Some(ExtendedMask::assign(ext_of(ext), case.blindings[0].clone()).unwrap()), None];
            let verdicts = w.window("compare ExtendedMask values", || (mask == same, mask != other, pair == pair2));
            if verdicts != (true, true, true) {
                w.rep.note("C20: ExtendedMask equality gives an unexpected verdict".into());
            }
            w.window("drop compared ExtendedMasks", move || drop((same, other, pair, pair2)));
        }
        w.window("drop ExtendedMask", move || drop(mask));
        // overwriting a secret-owning object with clone_from(): the storage the old value lived in is released (or
        // reused) without leaving the old secrets behind, also when the source is larger than the target
        {
            let mut small = CommitmentOpening::new(values[0], case.blindings[0][..1].to_vec());
            let big = CommitmentOpening::new(values[m - 1], vec![case.blindings[m - 1][0]; 6]);
            w.window("CommitmentOpening::clone_from a larger opening", || small.clone_from(&big));
            w.window("drop CommitmentOpening after clone_from", move || drop((small, big)));
            let mut w1 = RangeWitness::init(vec![CommitmentOpening::new(values[0], case.blindings[0].clone())]).unwrap();
            let src = RangeWitness::init((0..m.max(2)).map(|j| CommitmentOpening::new(values[j % m], case.blindings[j % m].clone())).collect::<Vec<_>>()).unwrap();
            w.window("RangeWitness::clone_from a larger witness", || w1.clone_from(&src));
            let mut w2 = src.clone();
            let one = RangeWitness::init(vec![CommitmentOpening::new(values[0], case.blindings[0].clone())]).unwrap();
            w.window("RangeWitness::clone_from a smaller witness", || w2.clone_from(&one));
            w.window("drop RangeWitness after clone_from", move || drop((w1, src, w2, one)));
        }
        // a constructor that refuses its input drops the caller-supplied vector: no owning object ever existed, so
        // this is outside the situations the property names - diagnostic only
        let bl = case.blindings[0].clone();
        w.deciding = false;
        w.window("ExtendedMask::assign refused", move || {
            let _ = ExtendedMask::assign(ext_of(1 + ext % 6), bl);
        });
        w.deciding = true;
    }
    // ---- statements holding the seed inline: heap-resident (Vec / Box) and in place
    if seeded {
        let v: Vec<Stmt> = vec![st.clone(), st.clone(), st.clone()];
        w.window("drop Vec<RangeStatement>", move || drop(v));
        let b: Box<Stmt> = Box::new(st.clone());
        w.window("drop Box<RangeStatement>", move || drop(b));
        let cl = st.clone();
        w.window("drop cloned RangeStatement", move || drop(cl));
        // a seed held inline is cleared when the statement is dropped
        let mut slot: MaybeUninit<Stmt> = MaybeUninit::new(st.clone());
        let seed_bytes = seed.unwrap().to_bytes();
        let found = unsafe {
            std::ptr::drop_in_place(slot.as_mut_ptr());
            let bytes = std::slice::from_raw_parts(slot.as_ptr() as *const u8, std::mem::size_of::<Stmt>());
            bytes.windows(32).any(|x| x == seed_bytes)
        };
        w.rep.eval(&(id, "inline seed", profile.to_string()));
        w.rep.count("inline_seed_scans", 1);
        if found {
            w.rep.violation(
                "C20 leak seed [inline in dropped statement]",
                &format!("after a statement is dropped in place its bytes still contain the recovery seed (build {profile})"),
                json!({"tier": if ctx.thorough() {"thorough"} else {"quick"}, "seed": ctx.seed, "leg": ctx.leg, "case": id, "build": profile, "descr": descr}),
            );
        }
    }
    w.window("drop RangeWitness (original)", move || drop(wit));
    let hits = std::mem::take(&mut w.value_hits);
    if c < 3 && salt == 0 {
        rep.sample(&format!("{profile}"), descr);
    }
    hits
}
