//! C13 — every blinding nonce in a proof is fresh. Observed over the free-module group by reading the
//! coordinates of the *library prover's* proof points on the blinding-generator and vector-generator axes,
//! cross-checked with what was drawn from the transcript RNG at the merlin boundary.

use std::collections::{BTreeSet, HashMap};

use curve25519_dalek::scalar::Scalar;
use merlin::probe::{self, Kind};
use rand_core::RngCore;
use serde_json::json;

use crate::{
    common::*,
    fm::FmPoint,
    gx::Gx,
    onfm::*,
    refbp,
};

/// The nonces of one proof, by name
pub struct Nonces {
    pub alpha: Vec<Scalar>,
    pub dl: Vec<Vec<Scalar>>,
    pub dr: Vec<Vec<Scalar>>,
    pub d: Vec<Scalar>,
    pub eta: Vec<Scalar>,
    pub r: Scalar,
    pub s: Scalar,
    pub b_h: Scalar,
    pub y: Scalar,
}

impl Nonces {
    pub fn seed_derivable(&self) -> Vec<(String, Scalar)> {
        let mut v = vec![];
        for (k, x) in self.alpha.iter().enumerate() {
            v.push((format!("alpha[{k}]"), *x));
        }
        for (j, row) in self.dl.iter().enumerate() {
            for (k, x) in row.iter().enumerate() {
                v.push((format!("dL[{j}][{k}]"), *x));
            }
        }
        for (j, row) in self.dr.iter().enumerate() {
            for (k, x) in row.iter().enumerate() {
                v.push((format!("dR[{j}][{k}]"), *x));
            }
        }
        for (k, x) in self.d.iter().enumerate() {
            v.push((format!("d[{k}]"), *x));
        }
        for (k, x) in self.eta.iter().enumerate() {
            v.push((format!("eta[{k}]"), *x));
        }
        v
    }

    pub fn all(&self) -> Vec<(String, Scalar)> {
        let mut v = self.seed_derivable();
        v.push(("r".into(), self.r));
        v.push(("s".into(), self.s));
        v
    }
}

/// Read the nonces off the proof points; `challenges` = (y, z, e_0.., e) as drawn by the prover
pub fn extract(prm: &Params, proof: &Proof, challenges: &[Scalar]) -> Option<Nonces> {
    let rp = Parts::of(proof).to_ref()?;
    let g = prm.g_bases();
    let g00 = prm.gi_base_iter().next()?.clone();
    let h00 = prm.hi_base_iter().next()?.clone();
    let rounds = rp.l.len();
    if challenges.len() != 3 + rounds {
        return None;
    }
    let pe: Scalar = challenges[2..2 + rounds].iter().product();
    let co = |p: &FmPoint, b: &FmPoint| p.coord(b);
    Some(Nonces {
        alpha: g.iter().map(|x| co(&rp.a, x)).collect(),
        dl: rp.l.iter().map(|l| g.iter().map(|x| co(l, x)).collect()).collect(),
        dr: rp.r.iter().map(|r| g.iter().map(|x| co(r, x)).collect()).collect(),
        d: g.iter().map(|x| co(&rp.a1, x)).collect(),
        eta: g.iter().map(|x| co(&rp.b, x)).collect(),
        r: co(&rp.a1, &g00) * pe,
        s: co(&rp.a1, &h00) * pe.invert(),
        b_h: co(&rp.b, prm.h_base()),
        y: challenges[0],
    })
}

/// Prove under the probe; returns (proof, challenges, RNG-derived 64-byte draws reduced mod l, events)
/// `None`: the convenience entry point `RangeProof::prove`, which draws from the operating system's generator
pub fn probed_prove_from(case: &Case, kind: Option<&RngKind>) -> Result<(Proof, Vec<Scalar>, Vec<Scalar>, Vec<probe::Event>), String> {
    probe::arm();
    let r = match kind {
        Some(kind) => {
            let mut prng = FaultRng::new(kind.clone());
            no_panic(|| case.prove(&mut prng))
        },
        None => no_panic(|| case.try_witness().and_then(|w| tari_bulletproofs_plus::range_proof::RangeProof::prove(&mut case.transcript(), &case.statement(), &w))),
    };
    let ev = probe::take();
    let proof = r?.map_err(|e| e.to_string())?;
    let ch: Vec<Scalar> = ev.iter().filter(|e| e.kind == Kind::Challenge && e.data.len() == 64).map(|e| wide(&e.data)).collect();
    let draws: Vec<Scalar> = ev.iter().filter(|e| e.kind == Kind::RngFill && e.data.len() == 64).map(|e| wide(&e.data)).collect();
    Ok((proof, ch, draws, ev))
}

pub fn run(ctx: &Ctx, rep: &mut Report) {
    let mut cfgs = lattice_systematic(512, 1024, false);
    let nrand = if ctx.thorough() { 400 } else { 40 };
    cfgs.extend(lattice_random(&mut ctx.rng("c13-lattice", 0), nrand, 512, 1024));
    let reps = if ctx.thorough() { 160 } else { 4 };
    // all RNG-derived nonces seen by this shard: no value may ever repeat across different runs
    let mut global: HashMap<[u8; 32], String> = HashMap::new();
    let mut id = 0usize;
    for (k, cfg) in cfgs.iter().enumerate() {
        for r in 0..reps {
            id += 1;
            if ctx.mine(id) {
                one(ctx, rep, id, *cfg, k + r, &mut global);
            }
        }
    }
    // long runs of one statement through the OS-generator entry point
    let long: Vec<(Cfg, bool, usize)> = vec![
        (Cfg::new(64, 1, 1, 1), true, 300),
        (Cfg::new(32, 1, 1, 2), true, 120),
        (Cfg::new(4, 1, 1, 1), false, 200),
        (Cfg::new(8, 2, 2, 3), false, 120),
        (Cfg::new(2, 1, 1, 6), true, 300),
        (Cfg::new(16, 1, 2, 1), false, 150),
    ];
    for (li, (cfg, seeded, runs)) in long.into_iter().enumerate() {
        let id = 900_000 + li;
        if ctx.mine(id) {
            long_run(ctx, rep, id, cfg, seeded, if ctx.thorough() { runs * 4 } else { runs });
        }
    }
}

/// The same statement, witness, seed and transcript proved many times on one thread through `RangeProof::prove`
/// (operating system's generator): every RNG-derived nonce of every run is new. Catches randomness that is pooled,
/// buffered or re-used with some period across calls.
fn long_run(ctx: &Ctx, rep: &mut Report, id: usize, cfg: Cfg, seeded: bool, runs: usize) {
    <FmPoint as Gx>::case_reset();
    let mut rng = ctx.rng("c13-long", id as u64);
    let case = Case::random(cfg, ValueClass::RandomHigh, PromiseClass::Third, seeded, &mut rng);
    let prm = case.params();
    let replay = json!({"tier": if ctx.thorough() {"thorough"} else {"quick"}, "seed": ctx.seed, "leg": "fm", "case": id, "descr": {"long_run": runs, "cfg": cfg.json(), "seeded": seeded}});
    let mut seen: HashMap<[u8; 32], (usize, String)> = HashMap::new();
    for run in 0..runs {
        let Ok((proof, ch, _draws, _ev)) = probed_prove_from(&case, None) else {
            rep.violation("C13 prove-failed", "RangeProof::prove failed or panicked on a valid case", replay.clone());
            return;
        };
        let Some(nz) = extract(&prm, &proof, &ch) else {
            rep.violation("C13 extraction-failed", "could not read the nonces off the proof points (challenge count or decoding)", replay.clone());
            return;
        };
        rep.count("long_run_proofs", 1);
        let fresh: Vec<(String, Scalar)> = if case.seed.is_some() { vec![("r".into(), nz.r), ("s".into(), nz.s)] } else { nz.all() };
        for (name, x) in fresh {
            if let Some((prev, pname)) = seen.insert(x.to_bytes(), (run, name.clone())) {
                rep.violation(
                    &format!("C13 nonce-repeated-across-proofs [{}] long-run seeded={seeded}", strip(&name)),
                    &format!("proving the same statement {runs} times in a row through RangeProof::prove: nonce {name} of run {run} equals {pname} of run {prev}"),
                    replay.clone(),
                );
                return;
            }
        }
    }
    rep.eval(&("long-run", cfg, seeded, runs));
}

fn one(ctx: &Ctx, rep: &mut Report, id: usize, cfg: Cfg, k: usize, global: &mut HashMap<[u8; 32], String>) {
    <FmPoint as Gx>::case_reset();
    let mut rng = ctx.rng("c13", id as u64);
    let seeded = cfg.m == 1 && k % 2 == 0;
    let mut case = Case::random(cfg, VALUE_CLASSES[k % 6], PROMISE_CLASSES[k % 5], seeded, &mut rng);
    if seeded && id % 7 == 0 {
        // corner seeds: zero and one are seeds like any other
        case.seed = Some(if id % 14 == 0 { Scalar::ZERO } else { Scalar::ONE });
        rep.count("corner_seed_cases", 1);
    }
    let prm = case.params();
    let replay = |what: &str| json!({"tier": if ctx.thorough() {"thorough"} else {"quick"}, "seed": ctx.seed, "leg": "fm", "case": id, "descr": case.json(), "step": what});
    // the same instance under several external RNGs (healthy x2 and faulty ones)
    let mut kinds = vec![Some(RngKind::Healthy(rng.next_u64())), Some(RngKind::Healthy(rng.next_u64()))];
    let all = rng_kinds(0);
    kinds.push(Some(all[1 + k % 6].clone()));
    kinds.push(Some(all[1 + (k + 3) % 6].clone()));
    if id % 3 == 2 {
        // two different streams from a source whose `try_fill_bytes` reports errors while `fill_bytes` delivers
        kinds.push(Some(RngKind::TryFails(rng.next_u64())));
        kinds.push(Some(RngKind::TryFails(rng.next_u64())));
    }
    if id % 3 == 1 {
        // twice through RangeProof::prove (operating system's generator): same arguments, fresh randomness each time
        kinds.push(None);
        kinds.push(None);
        rep.count("os_rng_proof_pairs", 1);
    }
    let mut runs: Vec<(Option<RngKind>, Nonces)> = vec![];
    for kind in kinds {
        let (proof, ch, draws, _ev) = match probed_prove_from(&case, kind.as_ref()) {
            Ok(x) => x,
            Err(e) => {
                // a prover that passes an error of the source on to its caller is within its rights
                if !(matches!(kind, Some(RngKind::TryFails(_))) && !e.contains("panic")) {
                    rep.violation("C13 prove-failed", &format!("prover failed or panicked under external RNG {kind:?}: {e}"), replay("prove"));
                }
                continue;
            },
        };
        let Some(nz) = extract(&prm, &proof, &ch) else {
            rep.violation("C13 extraction-failed", "could not read the nonces off the proof points (challenge count or decoding)", replay("extract"));
            continue;
        };
        rep.eval(&("proof", case.key(), format!("{kind:?}")));
        rep.count("proofs_inspected", 1);
        let allz = nz.all();
        rep.count("nonces_extracted", allz.len() as u64);
        let expect = 2 + cfg.ext * (3 + 2 * cfg.rounds());
        if allz.len() != expect {
            rep.violation("C13 nonce-count", &format!("{} nonces extracted, {expect} expected", allz.len()), replay("count"));
        }
        // consistency of the extraction itself: B[H] = r * y * s
        if nz.b_h != nz.r * nz.y * nz.s {
            rep.violation("C13 extraction-inconsistent", "B's coefficient on the value generator is not r*y*s: the final-round masks are not what A1 carries", replay("B[H]"));
            continue;
        }
        // (i) non-zero and pairwise distinct within the proof
        let mut seen: HashMap<[u8; 32], String> = HashMap::new();
        for (name, x) in &allz {
            if *x == Scalar::ZERO {
                rep.violation(&format!("C13 zero-nonce [{}]", strip(name)), &format!("nonce {name} is zero (external RNG {kind:?})"), replay(name));
            }
            if let Some(other) = seen.insert(x.to_bytes(), name.clone()) {
                rep.violation(
                    &format!("C13 repeated-nonce-within-proof [{} = {}]", strip(&other), strip(name)),
                    &format!("within one proof {other} and {name} are the same scalar (external RNG {kind:?}, seeded: {seeded})"),
                    replay(name),
                );
            }
        }
        // (iii) with a seed: the seed-derived nonces are exactly the documented function of the seed
        let rng_derived: Vec<(String, Scalar)> = if let Some(seed) = case.seed {
            for (name, x) in nz.seed_derivable() {
                let (label, j, kk) = parse_name(&name);
                let want = refbp::ref_nonce(&seed, label, j, kk);
                rep.count("seed_nonces_compared", 1);
                if x != want {
                    rep.violation(&format!("C13 seed-nonce-not-documented-function [{}]", strip(&name)), &format!("with a recovery seed, {name} is not Blake2b(seed, \"{label}\", j, k) as documented"), replay(&name));
                }
            }
            vec![("r".into(), nz.r), ("s".into(), nz.s)]
        } else {
            allz.clone()
        };
        // (iv) what was drawn from the transcript RNG is what was used
        let drawn: BTreeSet<[u8; 32]> = draws.iter().map(|s| s.to_bytes()).collect();
        let used: BTreeSet<[u8; 32]> = rng_derived.iter().map(|(_, s)| s.to_bytes()).collect();
        rep.count("rng_draw_sets_compared", 1);
        if drawn != used {
            rep.violation(
                &format!("C13 draws-vs-nonces seeded={seeded}"),
                &format!("{} scalars were drawn from the transcript RNG but the {} RNG-derived nonces in the proof are a different set ({} in common)", drawn.len(), used.len(), drawn.intersection(&used).count()),
                replay("draws"),
            );
        }
        // (ii) no RNG-derived nonce ever repeats across runs that differ in something
        for (name, x) in &rng_derived {
            let tag = format!("case {id} {name} under {kind:?}");
            if let Some(prev) = global.insert(x.to_bytes(), tag.clone()) {
                rep.violation(
                    &format!("C13 nonce-repeated-across-proofs [{}] seeded={seeded}", strip(name)),
                    &format!("RNG-derived nonce repeated across two prover runs: {prev} and {tag}"),
                    replay(name),
                );
            }
        }
        runs.push((kind, nz));
    }
    // seeded: r, s differ between the runs (covered by the global set) while the seed-derived ones coincide
    if seeded && runs.len() >= 2 {
        rep.count("seeded_run_pairs", 1);
        let a = runs[0].1.seed_derivable();
        for (_, nz) in &runs[1..] {
            if nz.seed_derivable().iter().zip(a.iter()).any(|(x, y)| x.1 != y.1) {
                rep.violation("C13 seed-nonces-depend-on-rng", "seed-derived nonces differ between two runs with the same seed", replay("seeded pair"));
            }
        }
    }
    rep.sample(if seeded { "seeded" } else { "unseeded" }, json!({"case": case.json(), "runs": runs.len(), "nonces_per_proof": 2 + cfg.ext * (3 + 2 * cfg.rounds())}));
}

fn strip(name: &str) -> String {
    name.chars().filter(|c| !c.is_ascii_digit()).collect()
}

fn parse_name(name: &str) -> (&'static str, Option<usize>, Option<usize>) {
    let nums: Vec<usize> = name.split(|c: char| !c.is_ascii_digit()).filter(|s| !s.is_empty()).filter_map(|s| s.parse().ok()).collect();
    if name.starts_with("alpha") {
        ("alpha", None, Some(nums[0]))
    } else if name.starts_with("dL") {
        ("dL", Some(nums[0]), Some(nums[1]))
    } else if name.starts_with("dR") {
        ("dR", Some(nums[0]), Some(nums[1]))
    } else if name.starts_with("eta") {
        ("eta", None, Some(nums[0]))
    } else {
        ("d", None, Some(nums[0]))
    }
}

#[allow(dead_code)]
fn unused(_: &mut dyn RngCore) {}
