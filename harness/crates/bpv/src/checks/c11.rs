//! C11 — generators are distinct, deterministic and derived as specified; the precomputed tables represent
//! exactly the interleaved vector generators; compressed forms are the encodings of the same points.

use std::collections::HashSet;

use curve25519_dalek::{
    constants::RISTRETTO_BASEPOINT_POINT,
    ristretto::RistrettoPoint,
    scalar::Scalar,
    traits::{Identity, VartimePrecomputedMultiscalarMul},
};
use digest::{ExtendableOutput, Update, XofReader};
use rand_core::RngCore;
use serde_json::json;
use tari_bulletproofs_plus::{
    generators::pedersen_gens::ExtensionDegree, range_parameters::RangeParameters, ristretto,
};

use crate::{
    common::*,
    fm::{self, FmPoint},
    gx::Gx,
    refbp,
};

/// (bits, capacity) pairs with more than 256 parties: the party index no longer fits one byte of the chain label
fn wide(thorough: bool) -> Vec<(usize, usize)> {
    if thorough {
        vec![(1, 512), (2, 512), (1, 1024), (4, 512), (1, 2048)]
    } else {
        vec![(1, 512), (2, 512)]
    }
}

fn configs(thorough: bool) -> Vec<(usize, usize, usize)> {
    let mut v = vec![];
    for (bi, &n) in BITS.iter().enumerate() {
        for (ci, &cap) in caps(thorough).iter().enumerate() {
            v.push((n, cap, 1 + (bi + ci) % 6));
        }
    }
    for (k, (n, cap)) in wide(thorough).into_iter().enumerate() {
        v.push((n, cap, 1 + k % 6));
    }
    v
}

/// Positional access on the generator iterators (`nth`, `skip`, `step_by`, `size_hint`, `last`, `count`, after a
/// partial walk too) must agree with the collected vectors
fn iter_access<P: Gx + PartialEq + Clone + tari_bulletproofs_plus::traits::Precomputable + tari_bulletproofs_plus::traits::FromUniformBytes>(
    prm: &RangeParameters<P>,
    gv: &[P],
    hv: &[P],
    rng: &mut rand_chacha::ChaCha12Rng,
    rep: &mut Report,
) -> Option<String> {
    iter_access_one("gi_base_iter", || prm.gi_base_iter(), gv, rng, rep).or_else(|| iter_access_one("hi_base_iter", || prm.hi_base_iter(), hv, rng, rep))
}

/// Copies of a parameter set are the same parameter set: `clone()` and `clone_from()` (onto an object of another
/// shape, also element-wise through `Vec::clone_from`) give the source's generators through every accessor, and a
/// precomputed table that represents exactly those generators
fn copies_agree<P>(prm: &RangeParameters<P>, other: &RangeParameters<P>, gv: &[P], hv: &[P], rng: &mut rand_chacha::ChaCha12Rng, rep: &mut Report) -> Option<String>
where P: Gx + PartialEq + Clone + refbp::RefGroup + tari_bulletproofs_plus::traits::Precomputable + tari_bulletproofs_plus::traits::FromUniformBytes {
    let n = prm.bit_length();
    let len = 2 * gv.len();
    let mut copies: Vec<(&str, RangeParameters<P>)> = vec![("clone()", prm.clone())];
    let mut a = other.clone();
    a.clone_from(prm);
    copies.push(("clone_from() onto a parameter set of another shape", a));
    let mut v = vec![other.clone(), other.clone()];
    v.clone_from(&vec![prm.clone(), prm.clone()]);
    copies.push(("Vec::clone_from() onto parameter sets of another shape", v.pop().expect("two")));
    for (how, c) in &copies {
        rep.count("parameter_copies_checked", 1);
        if c.bit_length() != n || c.max_aggregation_factor() != prm.max_aggregation_factor() || c.extension_degree() as usize != prm.extension_degree() as usize {
            return Some(format!("{how}: bit length / capacity / degree differ from the source"));
        }
        if !c.gi_base_iter().eq(gv.iter()) || !c.hi_base_iter().eq(hv.iter()) || c.g_bases() != prm.g_bases() || c.h_base() != prm.h_base() {
            return Some(format!("{how}: the copy's generators differ from the source's"));
        }
        // table probes: unit vectors at the party boundaries and one sparse random combination
        let pre = c.precomp();
        let mut probes: Vec<Vec<(usize, Scalar)>> = [0usize, 1, 2 * n - 1, (2 * n).min(len - 1), len - 1, len / 2].iter().map(|u| vec![(*u, Scalar::ONE)]).collect();
        probes.push((0..8).map(|_| ((rng.next_u64() as usize) % len, rand_scalar(rng))).collect());
        for pr in probes {
            let mut sc = vec![Scalar::ZERO; len];
            let mut want = P::zero();
            for (u, x) in &pr {
                sc[*u] += x;
                let g = if u % 2 == 0 { &gv[u / 2] } else { &hv[u / 2] };
                want = want.plus(&g.times(x));
            }
            let got = match crate::onris::no_panic(|| pre.vartime_multiscalar_mul(sc.iter())) {
                Ok(g) => g,
                Err(p) => return Some(format!("{how}: using the copy's precomputed table panics: {p}")),
            };
            if got != want {
                return Some(format!("{how}: the copy's precomputed table does not represent the copy's vector generators"));
            }
        }
    }
    None
}

fn iter_access_one<'a, P: PartialEq + 'a, I: Iterator<Item = &'a P>>(nm: &str, mk: impl Fn() -> I, v: &'a [P], rng: &mut rand_chacha::ChaCha12Rng, rep: &mut Report) -> Option<String> {
    let len = v.len();
    {
        if mk().size_hint() != (len, Some(len)) {
            return Some(format!("{nm}().size_hint() is {:?} for {len} generators", mk().size_hint()));
        }
        if mk().count() != len || mk().last() != v.last() {
            return Some(format!("{nm}(): count()/last() disagree with the collected vector"));
        }
        let mut pairs: Vec<(usize, usize)> = vec![(0, 0), (0, len - 1), (0, len), (len - 1, 0), (len / 2, 0)];
        for _ in 0..12 {
            let a = rng.next_u64() as usize % (len + 1);
            let b = rng.next_u64() as usize % (len + 2 - a);
            pairs.push((a, b));
        }
        for (start, k) in pairs {
            let mut it = mk();
            for _ in 0..start {
                it.next();
            }
            rep.count("iterator_positional_reads", 1);
            if it.size_hint() != (len - start.min(len), Some(len - start.min(len))) {
                return Some(format!("{nm}(): after {start} steps size_hint() is {:?}, {} generators remain", it.size_hint(), len - start.min(len)));
            }
            let got = it.nth(k);
            if got != v.get(start + k) {
                return Some(format!("{nm}(): after {start} steps nth({k}) is not generator {}", start + k));
            }
            if got.is_some() && it.next() != v.get(start + k + 1) {
                return Some(format!("{nm}(): the element after nth({k}) from {start} is not generator {}", start + k + 1));
            }
            if mk().skip(start).nth(k) != v.get(start + k) {
                return Some(format!("{nm}().skip({start}).nth({k}) is not generator {}", start + k));
            }
        }
        for step in [1usize, 2, 3, len.max(2) - 1, len, len + 1] {
            rep.count("iterator_positional_reads", 1);
            if !mk().step_by(step).eq(v.iter().step_by(step)) {
                return Some(format!("{nm}().step_by({step}) differs from stepping through the collected vector"));
            }
        }
    }
    None
}

fn caps(thorough: bool) -> Vec<usize> {
    if thorough {
        vec![1, 2, 4, 8, 16, 32, 64, 128]
    } else {
        vec![1, 2, 4, 8, 16, 32]
    }
}

pub fn run(ctx: &Ctx, rep: &mut Report) {
    if ctx.leg == "all" || ctx.leg == "ris" {
        ristretto_leg(ctx, rep);
    }
    if ctx.leg == "all" || ctx.leg == "fm" {
        fm_leg(ctx, rep);
    }
    if ctx.leg == "all" || ctx.leg == "threads" {
        threads_leg(ctx, rep);
    }
}

fn rp(ctx: &Ctx, id: usize, leg: &str, d: serde_json::Value) -> serde_json::Value {
    json!({"tier": if ctx.thorough() {"thorough"} else {"quick"}, "seed": ctx.seed, "leg": leg, "case": id, "descr": d})
}

fn ristretto_leg(ctx: &Ctx, rep: &mut Report) {
    let mut id = 0usize;
    // Pedersen generators: every degree
    for ext in 1..=6usize {
        id += 1;
        if !ctx.mine(id) {
            continue;
        }
        let pc = ristretto::create_pedersen_gens_with_extension_degree(ExtensionDegree::try_from(ext).unwrap());
        let (h, g) = refbp::ref_ristretto_pedersen(ext);
        rep.eval(&("pedersen", ext));
        rep.count("pedersen_sets_checked", 1);
        rep.count("points_compared_with_derivation", 1 + ext as u64);
        let d = json!({"pedersen_degree": ext});
        if pc.h_base != h || pc.h_base != RISTRETTO_BASEPOINT_POINT {
            rep.violation("C11 value-generator", "the value generator is not the Ristretto basepoint", rp(ctx, id, "ris", d.clone()));
        }
        if pc.g_base_vec.len() != ext || pc.g_base_compressed_vec.len() != ext || pc.extension_degree as usize != ext {
            rep.violation("C11 blinding-generator-count", &format!("{} blinding generators for degree {ext}", pc.g_base_vec.len()), rp(ctx, id, "ris", d.clone()));
            continue;
        }
        for k in 0..ext {
            if pc.g_base_vec[k] != g[k] {
                rep.violation(&format!("C11 blinding-generator-derivation k={k}"), &format!("blinding generator {} is not SHA3-512(\"RISTRETTO_MASKING_BASEPOINT_{}\") hashed to the group", k + 1, k + 1), rp(ctx, id, "ris", d.clone()));
            }
            if pc.g_base_vec[k] == RistrettoPoint::identity() {
                rep.violation(&format!("C11 identity-generator k={k}"), &format!("blinding generator {} is the identity", k + 1), rp(ctx, id, "ris", d.clone()));
            }
            if pc.g_base_compressed_vec[k] != pc.g_base_vec[k].compress() {
                rep.violation("C11 compressed-form", &format!("compressed blinding generator {} is not the encoding of the point", k + 1), rp(ctx, id, "ris", d.clone()));
            }
        }
        if pc.h_base_compressed != pc.h_base.compress() || pc.h_base_compressed() != pc.h_base.compress() {
            rep.violation("C11 compressed-form", "compressed value generator is not the encoding of the point", rp(ctx, id, "ris", d.clone()));
        }
    }
    // vector generators: bits x capacity (x a rotating degree)
    {
        for (n, cap, ext) in configs(ctx.thorough()) {
            id += 1;
            if !ctx.mine(id) {
                continue;
            }
            let d = json!({"bits": n, "capacity": cap, "ext": ext});
            let mut rng = ctx.rng("c11-ris", id as u64);
            let prm = match RangeParameters::init(n, cap, <RistrettoPoint as Gx>::pedersen(ext)) {
                Ok(p) => p,
                Err(e) => {
                    rep.violation("C11 parameters-refused", &format!("RangeParameters::init(bits {n}, capacity {cap}) is refused ({e}): no generators for a documented-valid parameter set"), rp(ctx, id, "ris", d.clone()));
                    continue;
                },
            };
            let gv: Vec<RistrettoPoint> = prm.gi_base_iter().cloned().collect();
            let hv: Vec<RistrettoPoint> = prm.hi_base_iter().cloned().collect();
            rep.eval(&("vector", n, cap, ext));
            rep.count("parameter_sets_checked", 1);
            if gv.len() != n * cap || hv.len() != n * cap {
                rep.violation("C11 generator-count", &format!("{} / {} vector generators for bits {n} x capacity {cap}", gv.len(), hv.len()), rp(ctx, id, "ris", d.clone()));
                continue;
            }
            // derivation, party by party
            let (rg, rh) = refbp::ref_vector_gens::<RistrettoPoint>(n, cap);
            rep.count("points_compared_with_derivation", 2 * (n * cap) as u64);
            if let Some(i) = (0..n * cap).find(|i| gv[*i] != rg[*i]) {
                rep.violation(&format!("C11 G-chain-derivation party{}", if i / n == 0 { "=0" } else if i / n < 256 { ">0" } else { ">255" }), &format!("G generator (party {}, index {}) is not the documented SHAKE256 derivation", i / n, i % n), rp(ctx, id, "ris", d.clone()));
            }
            if let Some(i) = (0..n * cap).find(|i| hv[*i] != rh[*i]) {
                rep.violation(&format!("C11 H-chain-derivation party{}", if i / n == 0 { "=0" } else if i / n < 256 { ">0" } else { ">255" }), &format!("H generator (party {}, index {}) is not the documented SHAKE256 derivation", i / n, i % n), rp(ctx, id, "ris", d.clone()));
            }
            // pairwise distinct, none the identity (all 2nc + d + 1 encodings)
            let mut seen: HashSet<[u8; 32]> = HashSet::new();
            let mut all: Vec<(String, RistrettoPoint)> = vec![("H".into(), prm.h_base().clone())];
            all.extend(prm.g_bases().iter().enumerate().map(|(k, p)| (format!("G[{k}]"), *p)));
            all.extend(gv.iter().enumerate().map(|(i, p)| (format!("Gvec[party {}, {}]", i / n, i % n), *p)));
            all.extend(hv.iter().enumerate().map(|(i, p)| (format!("Hvec[party {}, {}]", i / n, i % n), *p)));
            rep.count("encodings_checked_distinct", all.len() as u64);
            for (name, p) in &all {
                if *p == RistrettoPoint::identity() {
                    rep.violation("C11 identity-generator", &format!("{name} is the identity"), rp(ctx, id, "ris", d.clone()));
                }
                if !seen.insert(p.compress().to_bytes()) {
                    rep.violation("C11 duplicate-generator", &format!("{name} equals another generator of the same parameter set"), rp(ctx, id, "ris", d.clone()));
                    break;
                }
            }
            if let Some(msg) = iter_access(&prm, &gv, &hv, &mut rng, rep) {
                rep.violation("C11 iterator-access", &msg, rp(ctx, id, "ris", d.clone()));
            }
            {
                // another shape with the same number of generators where there is one, else another capacity
                let (on, ocap) = if n >= 2 { (n / 2, cap * 2) } else if cap >= 2 { (n * 2, cap / 2) } else { (2, 2) };
                let other = RangeParameters::init(on, ocap, <RistrettoPoint as Gx>::pedersen(1 + ext % 6)).expect("params");
                if let Some(msg) = copies_agree(&prm, &other, &gv, &hv, &mut rng, rep) {
                    rep.violation("C11 copy-differs", &msg, rp(ctx, id, "ris", d.clone()));
                }
                let other = RangeParameters::init(n, if cap > 1 { cap / 2 } else { 2 }, <RistrettoPoint as Gx>::pedersen(ext)).expect("params");
                if let Some(msg) = copies_agree(&prm, &other, &gv, &hv, &mut rng, rep) {
                    rep.violation("C11 copy-differs", &msg, rp(ctx, id, "ris", d.clone()));
                }
            }
            // the Debug rendering is a public read-out of the vector generators too: G and H must both appear, in that order
            if n * cap <= 64 {
                let text = format!("{prm:?}");
                let g0 = format!("{:?}", gv[0]);
                let h0 = format!("{:?}", hv[0]);
                let hl = format!("{:?}", hv[hv.len() - 1]);
                rep.count("debug_renderings_checked", 1);
                let gi = text.find(&g0);
                let hi = text.find(&h0);
                if gi.is_none() || hi.is_none() || !text.contains(&hl) || (gv[0] != hv[0] && text.matches(&g0).count() != 1) {
                    rep.violation("C11 debug-rendering", "the Debug rendering of the parameters does not show the G and H vector generators the accessors return (one of them missing or shown twice)", rp(ctx, id, "ris", d.clone()));
                }
            }
            // accessors for compressed forms
            if prm.h_base_compressed() != prm.h_base().compress() || prm.g_bases_compressed().iter().zip(prm.g_bases()).any(|(c, p)| *c != p.compress()) {
                rep.violation("C11 compressed-form", "compressed accessor differs from the encoding of the point", rp(ctx, id, "ris", d.clone()));
            }
            // the opaque precomputation table, probed through its public operation
            let pre = prm.precomp();
            let len = 2 * n * cap;
            let probes = if len <= 1024 { 3 } else { 1 };
            for _ in 0..probes {
                let s: Vec<Scalar> = (0..len).map(|_| rand_scalar(&mut rng)).collect();
                let got = pre.vartime_multiscalar_mul(s.iter());
                let mut want = RistrettoPoint::identity();
                for i in 0..n * cap {
                    want += gv[i] * s[2 * i] + hv[i] * s[2 * i + 1];
                }
                rep.count("table_probes", 1);
                if got != want {
                    rep.violation("C11 table-random-probe", "the precomputed table does not represent the interleaved vector generators (random linear combination differs)", rp(ctx, id, "ris", d.clone()));
                }
            }
            for &u in &[0usize, 1, 2 * n - 1, (2 * n).min(len - 1), len - 1, len / 2] {
                let mut s = vec![Scalar::ZERO; len];
                s[u] = Scalar::ONE;
                let got = pre.vartime_multiscalar_mul(s.iter());
                let want = if u % 2 == 0 { gv[u / 2] } else { hv[u / 2] };
                rep.count("table_probes", 1);
                if got != want {
                    rep.violation("C11 table-unit-probe", &format!("table entry {u} is not {} generator {}", if u % 2 == 0 { "G" } else { "H" }, u / 2), rp(ctx, id, "ris", d.clone()));
                }
            }
            // a second construction (other capacity first, then again) gives identical points
            let _other = RangeParameters::init(n, (cap * 2).min(128), <RistrettoPoint as Gx>::pedersen(1 + (ext % 6))).expect("params");
            let again = RangeParameters::init(n, cap, <RistrettoPoint as Gx>::pedersen(ext)).expect("params");
            rep.count("reconstructions_compared", 1);
            if again.gi_base_iter().zip(gv.iter()).any(|(a, b)| a != b) || again.hi_base_iter().zip(hv.iter()).any(|(a, b)| a != b) || again.g_bases() != prm.g_bases() {
                rep.violation("C11 not-deterministic", "constructing the same parameters again gives different generators", rp(ctx, id, "ris", d.clone()));
            }
            rep.sample("ristretto", json!({"cfg": d, "first_G": hex(&gv[0].compress().to_bytes()), "first_H": hex(&hv[0].compress().to_bytes())}));
        }
    }
}

/// Over the free-module group the derivation inputs and the table construction are directly observable
fn fm_leg(ctx: &Ctx, rep: &mut Report) {
    let mut id = 1000usize;
    {
        for (n, cap, ext) in configs(ctx.thorough()) {
            id += 1;
            if !ctx.mine(id) {
                continue;
            }
            let d = json!({"bits": n, "capacity": cap, "ext": ext, "group": "FmPoint"});
            let mut rng = ctx.rng("c11-fm", id as u64);
            let pc = <FmPoint as Gx>::pedersen(ext);
            fm::arm();
            let prm = RangeParameters::init(n, cap, pc);
            let log = fm::take();
            let prm = match prm {
                Ok(p) => p,
                Err(e) => {
                    rep.violation("C11 parameters-refused", &format!("RangeParameters::init(bits {n}, capacity {cap}) is refused ({e}): no generators for a documented-valid parameter set"), rp(ctx, id, "fm", d.clone()));
                    continue;
                },
            };
            rep.eval(&("fm", n, cap, ext));
            rep.count("fm_constructions_observed", 1);
            // expected hash-to-group inputs: per party, the G chain then the H chain, 64-byte SHAKE blocks
            let mut want: Vec<[u8; 64]> = vec![];
            for party in 0..cap as u32 {
                for chain in [b'G', b'H'] {
                    let mut shake = sha3::Shake256::default();
                    shake.update(b"GeneratorsChain");
                    shake.update(&[chain]);
                    shake.update(&party.to_le_bytes());
                    let mut rd = shake.finalize_xof();
                    for _ in 0..n {
                        let mut b = [0u8; 64];
                        rd.read(&mut b);
                        want.push(b);
                    }
                }
            }
            rep.count("hash_inputs_compared", want.len() as u64);
            let mut got_sorted = log.uniform_inputs.clone();
            let mut want_sorted = want.clone();
            got_sorted.sort();
            want_sorted.sort();
            if got_sorted != want_sorted {
                let collapsed = { let s: HashSet<[u8; 64]> = log.uniform_inputs.iter().copied().collect(); s.len() != log.uniform_inputs.len() };
                rep.violation(
                    &format!("C11 hash-inputs{}", if collapsed { "-collapsed" } else { "" }),
                    &format!("the {} hash-to-group inputs are not the documented SHAKE256(\"GeneratorsChain\" || G/H || LE32(party)) blocks{}", log.uniform_inputs.len(), if collapsed { " (two derivations collapse to the same input)" } else { "" }),
                    rp(ctx, id, "fm", d.clone()),
                );
            }
            // generator (party, index) on each chain is the basis element of exactly that block
            let gv: Vec<FmPoint> = prm.gi_base_iter().cloned().collect();
            let hv: Vec<FmPoint> = prm.hi_base_iter().cloned().collect();
            let mut ok_assign = gv.len() == n * cap && hv.len() == n * cap;
            if ok_assign {
                for party in 0..cap {
                    for i in 0..n {
                        let gb = gv[party * n + i].single_id().and_then(fm::basis_bytes);
                        let hb = hv[party * n + i].single_id().and_then(fm::basis_bytes);
                        if gb != Some(want[party * 2 * n + i]) || hb != Some(want[party * 2 * n + n + i]) {
                            ok_assign = false;
                        }
                    }
                }
            }
            if !ok_assign {
                rep.violation("C11 generator-assignment", "generator (party, index) is not the hash of the block the documentation assigns to it", rp(ctx, id, "fm", d.clone()));
            }
            if gv.len() == n * cap && hv.len() == n * cap {
                if let Some(msg) = iter_access(&prm, &gv, &hv, &mut rng, rep) {
                    rep.violation("C11 iterator-access", &msg, rp(ctx, id, "fm", d.clone()));
                }
                let (on, ocap) = if n >= 2 { (n / 2, cap * 2) } else if cap >= 2 { (n * 2, cap / 2) } else { (2, 2) };
                let other = RangeParameters::init(on, ocap, <FmPoint as Gx>::pedersen(1 + ext % 6)).expect("params");
                if let Some(msg) = copies_agree(&prm, &other, &gv, &hv, &mut rng, rep) {
                    rep.violation("C11 copy-differs", &msg, rp(ctx, id, "fm", d.clone()));
                }
            }
            // the table is built from the interleaving G_0, H_0, G_1, H_1, ...
            rep.count("table_constructions_observed", log.precomp_new.len() as u64);
            match log.precomp_new.last() {
                None => rep.violation("C11 no-table", "no precomputation table was constructed", rp(ctx, id, "fm", d.clone())),
                Some(pts) => {
                    let inter: Vec<FmPoint> = gv.iter().zip(hv.iter()).flat_map(|(g, h)| [g.clone(), h.clone()]).collect();
                    if *pts != inter {
                        rep.violation("C11 table-construction", "the points handed to the precomputation are not the interleaved vector generators", rp(ctx, id, "fm", d.clone()));
                    }
                },
            }
            rep.sample("fm", json!({"cfg": d, "hash_inputs": log.uniform_inputs.len()}));
        }
    }
}

/// Concurrent construction on 2..16 threads gives identical encodings
fn threads_leg(ctx: &Ctx, rep: &mut Report) {
    let rounds = if ctx.thorough() { 200 } else { 4 };
    for r in 0..rounds {
        let id = 2000 + r;
        if !ctx.mine(id) {
            continue;
        }
        let threads = [2usize, 4, 8, 16][r % 4];
        let n = BITS[r % 7];
        let cap = [1usize, 2, 4, 8][r % 4];
        let barrier = std::sync::Arc::new(std::sync::Barrier::new(threads));
        let hs: Vec<_> = (0..threads)
            .map(|t| {
                let b = barrier.clone();
                std::thread::spawn(move || {
                    b.wait();
                    let ext = 1 + (t % 6);
                    let prm = RangeParameters::init(n, cap, <RistrettoPoint as Gx>::pedersen(ext)).expect("params");
                    let v: Vec<[u8; 32]> = prm.gi_base_iter().chain(prm.hi_base_iter()).map(|p| p.compress().to_bytes()).collect();
                    let g: Vec<[u8; 32]> = prm.g_bases().iter().map(|p| p.compress().to_bytes()).collect();
                    (ext, v, g)
                })
            })
            .collect();
        let res: Vec<_> = hs.into_iter().map(|h| h.join().expect("thread")).collect();
        rep.eval(&("threads", r));
        rep.count("concurrent_constructions", threads as u64);
        let (_, g6) = refbp::ref_ristretto_pedersen(6);
        for (ext, v, g) in &res {
            if *v != res[0].1 {
                rep.violation("C11 threads-differ", "vector generators differ between threads constructing the same parameters", rp(ctx, id, "threads", json!({"threads": threads, "bits": n, "capacity": cap})));
            }
            if g.iter().zip(g6.iter()).any(|(a, b)| *a != b.compress().to_bytes()) || g.len() != *ext {
                rep.violation("C11 threads-blinding-generators", "blinding generators obtained under concurrent construction differ from the derivation", rp(ctx, id, "threads", json!({"threads": threads, "ext": ext})));
            }
        }
    }
}
