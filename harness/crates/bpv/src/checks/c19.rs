//! C19 — wire compatibility with the released protocol (golden vectors recorded from the pinned tree with
//! pristine merlin) and with the independent straight-from-the-paper implementation, byte for byte over Ristretto.

use curve25519_dalek::{ristretto::CompressedRistretto, scalar::Scalar};
use digest::Digest;
use merlin::Transcript;
use rand_core::RngCore;
use serde_json::{json, Value};
use tari_bulletproofs_plus::{
    commitment_opening::CommitmentOpening,
    generators::pedersen_gens::ExtensionDegree,
    range_parameters::RangeParameters,
    range_proof::{RangeProof, VerifyAction},
    range_statement::RangeStatement,
    range_witness::RangeWitness,
    ristretto,
};

use crate::{
    common::*,
    onris::*,
    refbp::{self, RefWitness},
};

fn sc(h: &str) -> Scalar {
    let b = unhex(h);
    let mut a = [0u8; 32];
    a.copy_from_slice(&b);
    Scalar::from_canonical_bytes(a).unwrap()
}

pub fn run(ctx: &Ctx, rep: &mut Report) {
    if ctx.leg == "all" || ctx.leg == "vectors" {
        vectors(ctx, rep);
    }
    if ctx.leg == "all" || ctx.leg == "cross" {
        cross(ctx, rep);
    }
}

fn vectors(ctx: &Ctx, rep: &mut Report) {
    let path = ctx.opt("vectors").unwrap_or_else(|| "/verif/vectors/golden.json".to_string());
    let Ok(txt) = std::fs::read_to_string(&path) else {
        rep.inconclusive(format!("C19: cannot read {path}"));
        return;
    };
    let Ok(g): Result<Value, _> = serde_json::from_str(&txt) else {
        rep.inconclusive(format!("C19: {path} is not JSON"));
        return;
    };
    let labels: Vec<&'static [u8]> = vec![b"bpv-ctx-0", b"Tari golden vector", b""];
    // the instruments first: a probe that deviates from pristine merlin would invalidate every comparison below
    if ctx.shard == 0 {
        rep.count("instrument_selftests", 1);
        if let Err(e) = crate::checks::selftest::merlin_probe_matches_pristine(&g) {
            rep.inconclusive(format!("C19: instrument self-test failed: {e}"));
            return;
        }
    }
    let mut id = 0usize;
    // ---- Pedersen generators
    id += 1;
    if ctx.mine(id) {
        let pc = ristretto::create_pedersen_gens_with_extension_degree(ExtensionDegree::AddFiveBasePoints);
        rep.eval(&("pedersen", 0));
        rep.count("generator_sets_compared", 1);
        let ok = Some(hex(pc.h_base_compressed.as_bytes()).as_str()) == g["pedersen"]["h"].as_str() &&
            g["pedersen"]["g"].as_array().map(|a| a.len() == 6 && a.iter().zip(pc.g_base_compressed_vec.iter()).all(|(x, y)| x.as_str() == Some(hex(y.as_bytes()).as_str()))).unwrap_or(false) &&
            pc.g_base_vec.iter().zip(pc.g_base_compressed_vec.iter()).all(|(p, c)| p.compress() == *c);
        if !ok {
            rep.violation("C19 pedersen-generators", "the value / blinding generators differ from the recorded 0.4.0 encodings", json!({"tier": "quick", "seed": ctx.seed, "leg": "vectors", "case": id}));
        }
    }
    // ---- vector generator tables
    for t in g["generators"].as_array().cloned().unwrap_or_default() {
        id += 1;
        if !ctx.mine(id) {
            continue;
        }
        let n = t["bits"].as_u64().unwrap() as usize;
        let cap = t["capacity"].as_u64().unwrap() as usize;
        if !ctx.thorough() && n * cap > 1024 {
            continue;
        }
        let prm = RangeParameters::init(n, cap, ristretto::create_pedersen_gens_with_extension_degree(ExtensionDegree::AddFiveBasePoints)).expect("params");
        let gv: Vec<[u8; 32]> = prm.gi_base_iter().map(|p| p.compress().to_bytes()).collect();
        let hv: Vec<[u8; 32]> = prm.hi_base_iter().map(|p| p.compress().to_bytes()).collect();
        let mut h = sha3::Sha3_256::new();
        for x in gv.iter().chain(hv.iter()) {
            h.update(x);
        }
        rep.eval(&("table", n, cap));
        rep.count("generator_sets_compared", 1);
        rep.count("generator_encodings_compared", (gv.len() + hv.len()) as u64);
        let ok = t["digest"].as_str() == Some(hex(&h.finalize()).as_str()) &&
            t["g_first"].as_str() == Some(hex(&gv[0]).as_str()) &&
            t["g_last"].as_str() == Some(hex(&gv[gv.len() - 1]).as_str()) &&
            t["h_first"].as_str() == Some(hex(&hv[0]).as_str()) &&
            t["h_last"].as_str() == Some(hex(&hv[hv.len() - 1]).as_str()) &&
            t["count"].as_u64() == Some(gv.len() as u64);
        if !ok {
            let first_party_ok = t["g_first"].as_str() == Some(hex(&gv[0]).as_str()) && t["h_first"].as_str() == Some(hex(&hv[0]).as_str());
            rep.violation(
                &format!("C19 vector-generators first-party-ok={first_party_ok}"),
                &format!("the vector generators for bits {n} x capacity {cap} differ from the recorded 0.4.0 encodings"),
                json!({"tier": if ctx.thorough() {"thorough"} else {"quick"}, "seed": ctx.seed, "leg": "vectors", "case": id, "descr": {"bits": n, "capacity": cap}}),
            );
        }
    }
    // ---- recorded proofs
    for (vi, v) in g["vectors"].as_array().cloned().unwrap_or_default().iter().enumerate() {
        id += 1;
        if !ctx.mine(id) {
            continue;
        }
        let n = v["bits"].as_u64().unwrap() as usize;
        let m = v["aggregation"].as_u64().unwrap() as usize;
        let cap = v["capacity"].as_u64().unwrap() as usize;
        let ext = v["ext"].as_u64().unwrap() as usize;
        if !ctx.thorough() && n * m > 512 {
            continue;
        }
        let descr = json!({"vector": vi, "bits": n, "aggregation": m, "capacity": cap, "ext": ext, "seeded": !v["seed"].is_null()});
        let replay = json!({"tier": if ctx.thorough() {"thorough"} else {"quick"}, "seed": ctx.seed, "leg": "vectors", "case": id, "descr": descr});
        let sig = format!("m{}1 seeded={}", if m > 1 { ">" } else { "=" }, !v["seed"].is_null());
        let prm = params(n, cap, ext);
        let values: Vec<u64> = v["values"].as_array().unwrap().iter().map(|x| x.as_str().unwrap().parse().unwrap()).collect();
        let blindings: Vec<Vec<Scalar>> = v["blindings"].as_array().unwrap().iter().map(|b| b.as_array().unwrap().iter().map(|s| sc(s.as_str().unwrap())).collect()).collect();
        let promises: Vec<Option<u64>> = v["promises"].as_array().unwrap().iter().map(|p| p.as_str().map(|s| s.parse().unwrap())).collect();
        let seed = v["seed"].as_str().map(sc);
        let commitments: Vec<_> = v["commitments"].as_array().unwrap().iter().map(|c| { let mut a = [0u8; 32]; a.copy_from_slice(&unhex(c.as_str().unwrap())); CompressedRistretto(a).decompress().expect("recorded commitment") }).collect();
        let mk_t = || {
            let mut t = Transcript::new(labels[v["label"].as_u64().unwrap() as usize]);
            for e in v["extra"].as_array().unwrap() {
                t.append_message(b"bpv-extra", &unhex(e.as_str().unwrap()));
            }
            t
        };
        rep.eval(&("vector", vi));
        rep.count("recorded_proofs_checked", 1);
        // commitments are reproduced by the current generators
        for j in 0..m {
            if commit(prm.pc_gens(), values[j], &blindings[j]) != commitments[j] {
                rep.violation("C19 commitment-differs", "committing the recorded opening with the current generators does not give the recorded commitment", replay.clone());
            }
        }
        let proof_bytes = unhex(v["proof"].as_str().unwrap());
        let proof = match Proof::from_bytes(&proof_bytes) {
            Ok(p) => p,
            Err(e) => {
                if n * m == 1 {
                    rep.count("recorded_zero_round_proofs_not_decodable", 1);
                    // C15 known finding: cannot be decoded; re-proving below still checks the seed-derived elements
                    reprove(rep, &prm, &commitments, &promises, seed, &values, &blindings, &mk_t(), &proof_bytes, &replay, &sig);
                    continue;
                }
                rep.violation(&format!("C19 recorded-proof-does-not-decode {sig}"), &format!("a proof recorded from 0.4.0 no longer decodes: {e}"), replay.clone());
                continue;
            },
        };
        if proof.to_bytes() != proof_bytes {
            rep.violation("C19 recorded-proof-reencodes-differently", "decode/encode of a recorded proof changes its bytes", replay.clone());
        }
        let st = RangeStatement::init(prm.clone(), commitments.clone(), promises.clone(), seed).expect("statement");
        for action in ACTIONS {
            rep.count("recorded_proof_verifications", 1);
            match verify_one(&mk_t(), &st, &proof, action) {
                Err(e) => rep.violation(&format!("C19 recorded-proof-rejected {sig}"), &format!("a proof recorded from 0.4.0 is rejected by the current tree ({}): {e}", action_name(action)), replay.clone()),
                Ok(mask) => {
                    if action != VerifyAction::VerifyOnly {
                        let want: Option<Vec<Scalar>> = v["mask"].as_array().map(|a| a.iter().map(|s| sc(s.as_str().unwrap())).collect());
                        rep.count("recorded_masks_compared", 1);
                        if mask_vec(&mask) != want {
                            rep.violation(&format!("C19 recorded-mask-differs {sig}"), "the mask recovered from a recorded proof differs from the recorded mask", replay.clone());
                        }
                    }
                },
            }
        }
        // the independent reference accepts it and recovers the same mask
        let rst = ref_statement_of(&prm, m, &commitments, &promises);
        if let Some(rp) = Parts::from_bytes(&proof_bytes).to_ref() {
            rep.count("reference_checks_of_recorded_proofs", 1);
            if !refbp::ref_verify(&mk_t(), &rst, &rp) {
                rep.violation(&format!("C19 reference-rejects-recorded-proof {sig}"), "the reference verifier (running on the current generators) rejects a recorded proof", replay.clone());
            }
            if let Some(s) = seed {
                if refbp::ref_recover(&mk_t(), &rst, &rp, &s) != blindings[0] {
                    rep.violation("C19 reference-recovery-differs", "reference recovery on a recorded proof does not give the recorded blinding vector", replay.clone());
                }
            }
        }
        reprove(rep, &prm, &commitments, &promises, seed, &values, &blindings, &mk_t(), &proof_bytes, &replay, &sig);
        if vi < 3 {
            rep.sample("vector", descr);
        }
    }
}

/// Seeded vectors: re-proving the recorded statement reproduces the recorded A, L_j, R_j (they depend only on
/// witness, generators, challenges and seed-derived nonces - all wire-level); A1, B, r1, s1, d1 depend on the
/// order in which the prover consumes its RNG and are deliberately not compared.
#[allow(clippy::too_many_arguments)]
fn reprove(
    rep: &mut Report,
    prm: &Params,
    commitments: &[curve25519_dalek::ristretto::RistrettoPoint],
    promises: &[Option<u64>],
    seed: Option<Scalar>,
    values: &[u64],
    blindings: &[Vec<Scalar>],
    t: &Transcript,
    recorded: &[u8],
    replay: &Value,
    sig: &str,
) {
    let Some(seed) = seed else { return };
    let st = RangeStatement::init(prm.clone(), commitments.to_vec(), promises.to_vec(), Some(seed)).expect("statement");
    let w = RangeWitness::init((0..values.len()).map(|j| CommitmentOpening::new(values[j], blindings[j].clone())).collect()).expect("witness");
    let mut prng = FaultRng::new(RngKind::Healthy(99));
    let Ok(p) = RangeProof::prove_with_rng(&mut t.clone(), &st, &w, &mut prng) else {
        rep.violation(&format!("C19 reprove-refused {sig}"), "the prover refuses a recorded (statement, witness) pair", replay.clone());
        return;
    };
    let a = Parts::of(&p);
    let b = Parts::from_bytes(recorded);
    rep.count("seeded_reproofs_compared", 1);
    if a.a != b.a || a.lr != b.lr {
        let what = if a.a != b.a { "A" } else { "an L/R pair" };
        rep.violation(
            &format!("C19 seeded-reproof-differs {sig}"),
            &format!("re-proving a recorded seeded statement gives a different {what}: seed-derived nonces, generators or challenges are no longer those of 0.4.0"),
            replay.clone(),
        );
    }
}

/// Cross-implementation runs on fresh random configurations, exchanged as bytes
fn cross(ctx: &Ctx, rep: &mut Report) {
    let mut cfgs = lattice_systematic(if ctx.thorough() { 1024 } else { 128 }, if ctx.thorough() { 2048 } else { 256 }, false);
    let nrand = if ctx.thorough() { 2500 } else { 30 };
    cfgs.extend(lattice_random(&mut ctx.rng("c19-lattice", 0), nrand, 256, 512));
    let reps = if ctx.thorough() { 4 } else { 1 };
    let mut id = 10000usize;
    for (k, cfg) in cfgs.iter().enumerate() {
        for r in 0..reps {
            id += 1;
            if !ctx.mine(id) {
                continue;
            }
            let mut rng = ctx.rng("c19-cross", id as u64);
            let case = Case::random(*cfg, VALUE_CLASSES[(k + r) % 6], PROMISE_CLASSES[(k + r) % 5], (k + r) % 2 == 0, &mut rng);
            let replay = json!({"tier": if ctx.thorough() {"thorough"} else {"quick"}, "seed": ctx.seed, "leg": "cross", "case": id, "descr": case.json()});
            let sig = format!("m{}1 seeded={}", if cfg.m > 1 { ">" } else { "=" }, case.seed.is_some());
            let rst = case.ref_statement();
            let rw = RefWitness { values: case.values.clone(), blindings: case.blindings.clone() };
            // reference prover -> library verifier and recoverer
            let seed = case.seed;
            let mut nrng = ctx.rng("c19-nonce", id as u64);
            let mut nonce = |label: &str, j: Option<usize>, kk: Option<usize>| -> Scalar {
                match (seed, label) {
                    (Some(s), "alpha") | (Some(s), "dL") | (Some(s), "dR") | (Some(s), "d") | (Some(s), "eta") => refbp::ref_nonce(&s, label, j, kk),
                    _ => rand_scalar(&mut nrng),
                }
            };
            let rp = refbp::ref_prove(&case.transcript(), &rst, &rw, &mut nonce, &refbp::Cheat::Honest);
            let rbytes = rp.to_bytes();
            rep.eval(&("cross", case.key()));
            rep.count("reference_proofs_into_library", 1);
            if cfg.mn() > 1 {
                match Proof::from_bytes(&rbytes) {
                    Err(e) => rep.violation(&format!("C19 reference-proof-does-not-decode {sig}"), &format!("bytes from the reference prover do not decode: {e}"), replay.clone()),
                    Ok(p) => {
                        for action in ACTIONS {
                            match verify_one(&case.transcript(), &case.statement(), &p, action) {
                                Err(e) => rep.violation(&format!("C19 library-rejects-reference-proof {sig}"), &format!("a proof from the independent prover is rejected by the library ({}): {e}", action_name(action)), replay.clone()),
                                Ok(mask) => {
                                    let want = if action != VerifyAction::VerifyOnly && case.seed.is_some() { Some(case.blindings[0].clone()) } else { None };
                                    if mask_vec(&mask) != want {
                                        rep.violation(&format!("C19 library-recovers-wrong-mask-from-reference-proof {sig}"), "the library does not recover the blinding vector from a seeded proof made by the independent prover", replay.clone());
                                    }
                                },
                            }
                        }
                    },
                }
            }
            // library prover -> reference verifier; seeded: A, L, R byte-identical between the two provers
            let mut prng = FaultRng::new(RngKind::Healthy(rng.next_u64()));
            match case.prove(&mut prng) {
                Err(e) => rep.violation("C19 prove-refused", &format!("{e}"), replay.clone()),
                Ok(lp) => {
                    let lparts = Parts::of(&lp);
                    rep.count("library_proofs_into_reference", 1);
                    if let Some(lr) = lparts.to_ref() {
                        if !refbp::ref_verify(&case.transcript(), &rst, &lr) {
                            rep.violation(&format!("C19 reference-rejects-library-proof {sig}"), "a proof from the library is rejected by the independent verifier", replay.clone());
                        }
                    }
                    // the challenges the library draws are those of the documented transcript layout
                    {
                        merlin::probe::arm();
                        let _ = verify_one(&case.transcript(), &case.statement_public(), &lp, VerifyAction::VerifyOnly);
                        let ev = merlin::probe::take();
                        if let Some(lr) = lparts.to_ref() {
                            let want = refbp::ref_challenges(&case.transcript(), &rst, &lr);
                            let got = observed_challenges(&ev);
                            rep.count("challenge_sequences_compared", 1);
                            if got.first().and_then(|g| as_challenges(g, lr.l.len())).map(|c| c.y != want.y || c.z != want.z || c.rounds != want.rounds || c.e != want.e).unwrap_or(true) {
                                rep.violation(&format!("C19 challenges-differ {sig}"), "the challenges the library draws differ from those of the documented transcript layout", replay.clone());
                            }
                            if let Some(s) = case.seed {
                                rep.count("reference_recoveries", 1);
                                if refbp::ref_recover(&case.transcript(), &rst, &lr, &s) != case.blindings[0] {
                                    rep.violation(&format!("C19 reference-recovery-differs {sig}"), "the documented recovery, implemented independently, does not return the blinding vector from the library's seeded proof", replay.clone());
                                }
                            }
                        }
                    }
                    if case.seed.is_some() {
                        let rparts = Parts::from_bytes(&rbytes);
                        rep.count("seeded_prover_pairs_compared", 1);
                        if lparts.a != rparts.a || lparts.lr != rparts.lr {
                            rep.violation(
                                &format!("C19 provers-differ-on-seeded-elements {sig}"),
                                "for the same seeded statement the library's A / L / R differ from the independent prover's: nonce derivation, generators, transcript layout or folding differ from the documented protocol",
                                replay.clone(),
                            );
                        }
                    }
                },
            }
            if k < 2 {
                rep.sample("cross", case.json());
            }
        }
    }
}

#[allow(dead_code)]
fn unused(_: &mut dyn RngCore) {}
