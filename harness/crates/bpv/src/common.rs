//! Shared plumbing: run context, report (what the monitors observed), seeds, fault-injecting RNGs (I6),
//! the configuration lattice.
#![allow(dead_code)]

use std::{
    collections::{BTreeMap, BTreeSet},
    hash::{Hash, Hasher},
    time::Instant,
};

use curve25519_dalek::scalar::Scalar;
use rand_chacha::ChaCha12Rng;
use rand_core::{CryptoRng, RngCore, SeedableRng};
use serde_json::{json, Value};

#[derive(Clone, Debug, PartialEq)]
pub enum Tier {
    Quick,
    Thorough,
}

#[derive(Clone, Debug)]
pub struct Ctx {
    pub check: String,
    pub tier: Tier,
    pub seed: u64,
    pub shard: usize,
    pub nshards: usize,
    pub out: Option<String>,
    pub replay: Option<String>,
    pub leg: String,
    pub extra: Vec<String>,
    pub started: Instant,
    /// replay: run only this case id
    pub only: Option<u64>,
}

impl Ctx {
    pub fn thorough(&self) -> bool {
        self.tier == Tier::Thorough
    }

    /// Is case number `i` handled by this shard?
    pub fn mine(&self, i: usize) -> bool {
        match self.only {
            Some(o) => o == i as u64,
            None => i % self.nshards == self.shard,
        }
    }

    /// Per-case RNG: depends on the run seed and a case tag, not on the shard layout
    pub fn rng(&self, tag: &str, i: u64) -> ChaCha12Rng {
        let mut h = std::collections::hash_map::DefaultHasher::new();
        self.check.hash(&mut h);
        tag.hash(&mut h);
        let mut sm = SplitMix64(self.seed ^ h.finish() ^ i.wrapping_mul(0x9E37_79B9_7F4A_7C15));
        let mut s = [0u8; 32];
        for c in s.chunks_mut(8) {
            c.copy_from_slice(&sm.next().to_le_bytes());
        }
        ChaCha12Rng::from_seed(s)
    }

    pub fn flag(&self, f: &str) -> bool {
        self.extra.iter().any(|x| x == f)
    }

    pub fn opt(&self, k: &str) -> Option<String> {
        let p = format!("{k}=");
        self.extra.iter().find_map(|x| x.strip_prefix(&p).map(|s| s.to_string()))
    }
}

pub struct SplitMix64(pub u64);

impl SplitMix64 {
    pub fn next(&mut self) -> u64 {
        self.0 = self.0.wrapping_add(0x9E37_79B9_7F4A_7C15);
        let mut z = self.0;
        z = (z ^ (z >> 30)).wrapping_mul(0xBF58_476D_1CE4_E5B9);
        z = (z ^ (z >> 27)).wrapping_mul(0x94D0_49BB_1331_11EB);
        z ^ (z >> 31)
    }
}

pub fn hash64<T: Hash>(t: &T) -> u64 {
    let mut h = std::collections::hash_map::DefaultHasher::new();
    t.hash(&mut h);
    h.finish()
}

pub fn hex(b: &[u8]) -> String {
    b.iter().map(|x| format!("{x:02x}")).collect()
}

pub fn unhex(s: &str) -> Vec<u8> {
    (0..s.len() / 2).map(|i| u8::from_str_radix(&s[2 * i..2 * i + 2], 16).unwrap_or(0)).collect()
}

pub fn sc_hex(s: &Scalar) -> String {
    hex(s.as_bytes())
}

/// What one shard of one leg of one check observed
pub struct Report {
    pub property: String,
    pub evaluations: u64,
    distinct: BTreeSet<u64>,
    /// extra distinct count for checks that count classes rather than hashing descriptors
    pub distinct_extra: u64,
    pub counters: BTreeMap<String, u64>,
    pub samples: Vec<Value>,
    pub violations: Vec<Value>,
    pub notes: Vec<String>,
    pub inconclusive: Vec<String>,
    pub max_samples: usize,
    pub max_violations: usize,
    sample_tags: BTreeMap<String, usize>,
}

impl Report {
    pub fn new(property: &str) -> Self {
        Report {
            property: property.to_string(),
            evaluations: 0,
            distinct: BTreeSet::new(),
            distinct_extra: 0,
            counters: BTreeMap::new(),
            samples: vec![],
            violations: vec![],
            notes: vec![],
            inconclusive: vec![],
            max_samples: 12,
            max_violations: 20,
            sample_tags: BTreeMap::new(),
        }
    }

    /// One oracle evaluation on a case that is non-trivial by the check's rule; `key` identifies the case
    pub fn eval<T: Hash>(&mut self, key: &T) {
        self.evaluations += 1;
        self.distinct.insert(hash64(key));
    }

    /// One oracle evaluation that does not count as a distinct non-trivial case
    pub fn eval_trivial(&mut self) {
        self.evaluations += 1;
    }

    pub fn count(&mut self, k: &str, n: u64) {
        *self.counters.entry(k.to_string()).or_insert(0) += n;
    }

    pub fn max(&mut self, k: &str, n: u64) {
        let e = self.counters.entry(k.to_string()).or_insert(0);
        if n > *e {
            *e = n;
        }
    }

    pub fn counter(&self, k: &str) -> u64 {
        self.counters.get(k).copied().unwrap_or(0)
    }

    /// Keep at most two samples per tag so that the evidence shows the variety of cases
    pub fn sample(&mut self, tag: &str, v: Value) {
        let c = self.sample_tags.entry(tag.to_string()).or_insert(0);
        if *c < 2 && self.samples.len() < self.max_samples {
            *c += 1;
            self.samples.push(json!({"kind": tag, "case": v}));
        }
    }

    /// An oracle failed on the real code. `sig` is the stable signature matched against known findings;
    /// `replay` must contain everything needed to re-execute the case.
    pub fn violation(&mut self, sig: &str, what: &str, replay: Value) {
        self.count("violations_raw", 1);
        if self.violations.len() < self.max_violations {
            self.violations.push(json!({"sig": sig, "what": what, "replay": replay}));
        }
    }

    pub fn note(&mut self, s: String) {
        if self.notes.len() < 40 && !self.notes.contains(&s) {
            self.notes.push(s);
        }
    }

    pub fn inconclusive(&mut self, s: String) {
        if self.inconclusive.len() < 20 {
            self.inconclusive.push(s);
        }
    }

    pub fn to_json(&self, ctx: &Ctx) -> Value {
        json!({
            "property": self.property,
            "leg": ctx.leg,
            "shard": ctx.shard,
            "nshards": ctx.nshards,
            "seed": ctx.seed,
            "evaluations": self.evaluations,
            "distinct_hashes": self.distinct.iter().map(|h| format!("{h:016x}")).collect::<Vec<_>>(),
            "distinct_extra": self.distinct_extra,
            "counters": self.counters,
            "samples": self.samples,
            "violations": self.violations,
            "notes": self.notes,
            "inconclusive": self.inconclusive,
            "wall_s": ctx.started.elapsed().as_secs_f64(),
        })
    }
}

// ------------------------------------------------------------------------------------------------
// I6 — fault-injecting RNGs
// ------------------------------------------------------------------------------------------------

#[derive(Clone, Debug, PartialEq, Eq, Hash)]
pub enum RngKind {
    /// healthy ChaCha12 stream with this seed
    Healthy(u64),
    AllZero,
    AllOnes,
    /// repeats these bytes for ever
    Period(Vec<u8>),
    /// 64-bit counter starting at the given value
    Counter(u64),
    /// healthy ChaCha12 stream through `fill_bytes` / `next_*`, but `try_fill_bytes` reports an error (a source whose
    /// non-blocking interface fails while the blocking one delivers)
    TryFails(u64),
}

pub struct FaultRng {
    kind: RngKind,
    chacha: Option<ChaCha12Rng>,
    pos: u64,
    pub bytes_drawn: u64,
}

impl FaultRng {
    pub fn new(kind: RngKind) -> Self {
        let chacha = if let RngKind::Healthy(s) | RngKind::TryFails(s) = &kind { Some(ChaCha12Rng::seed_from_u64(*s)) } else { None };
        let pos = if let RngKind::Counter(c) = &kind { *c } else { 0 };
        FaultRng { kind, chacha, pos, bytes_drawn: 0 }
    }
}

impl RngCore for FaultRng {
    fn next_u32(&mut self) -> u32 {
        let mut b = [0u8; 4];
        self.fill_bytes(&mut b);
        u32::from_le_bytes(b)
    }

    fn next_u64(&mut self) -> u64 {
        let mut b = [0u8; 8];
        self.fill_bytes(&mut b);
        u64::from_le_bytes(b)
    }

    fn fill_bytes(&mut self, d: &mut [u8]) {
        self.bytes_drawn += d.len() as u64;
        // a prover that rejection-samples straight from a stuck external RNG would spin for ever
        if self.bytes_drawn > (1 << 22) {
            panic!("external RNG drained: more than 4 MiB drawn by one call (rejection sampling on a stuck RNG?)");
        }
        match &self.kind {
            RngKind::Healthy(_) | RngKind::TryFails(_) => self.chacha.as_mut().unwrap().fill_bytes(d),
            RngKind::AllZero => d.fill(0),
            RngKind::AllOnes => d.fill(0xFF),
            RngKind::Period(p) => {
                for x in d.iter_mut() {
                    *x = p[(self.pos % p.len() as u64) as usize];
                    self.pos += 1;
                }
            },
            RngKind::Counter(_) => {
                for c in d.chunks_mut(8) {
                    let b = self.pos.to_le_bytes();
                    c.copy_from_slice(&b[..c.len()]);
                    self.pos = self.pos.wrapping_add(1);
                }
            },
        }
    }

    fn try_fill_bytes(&mut self, d: &mut [u8]) -> Result<(), rand_core::Error> {
        if let RngKind::TryFails(_) = self.kind {
            return Err(rand_core::Error::from(core::num::NonZeroU32::new(rand_core::Error::CUSTOM_START).unwrap()));
        }
        self.fill_bytes(d);
        Ok(())
    }
}

impl CryptoRng for FaultRng {}

/// The standard set of external-RNG fault models
pub fn rng_kinds(seed: u64) -> Vec<RngKind> {
    vec![
        RngKind::Healthy(seed),
        RngKind::AllZero,
        RngKind::AllOnes,
        RngKind::Period(vec![0xA5]),
        RngKind::Period(vec![0x01, 0xFE]),
        RngKind::Period((0..32u8).map(|i| i.wrapping_mul(37).wrapping_add(11)).collect()),
        RngKind::Counter(0),
    ]
}

// ------------------------------------------------------------------------------------------------
// Configuration lattice
// ------------------------------------------------------------------------------------------------

#[derive(Clone, Copy, Debug, PartialEq, Eq, Hash, PartialOrd, Ord)]
pub struct Cfg {
    /// bit length
    pub n: usize,
    /// aggregation factor
    pub m: usize,
    /// capacity of the parameters (max aggregation factor)
    pub cap: usize,
    /// extension degree 1..=6
    pub ext: usize,
}

impl Cfg {
    pub fn new(n: usize, m: usize, cap: usize, ext: usize) -> Self {
        Cfg { n, m, cap, ext }
    }

    pub fn mn(&self) -> usize {
        self.n * self.m
    }

    pub fn rounds(&self) -> usize {
        self.mn().ilog2() as usize
    }

    pub fn json(&self) -> Value {
        json!({"bits": self.n, "aggregation": self.m, "capacity": self.cap, "ext": self.ext})
    }

    pub fn max_value(&self) -> u64 {
        if self.n >= 64 {
            u64::MAX
        } else {
            (1u64 << self.n) - 1
        }
    }
}

pub const BITS: [usize; 7] = [1, 2, 4, 8, 16, 32, 64];

/// Systematic part of the lattice: seed-independent, covers every level of every factor and the pairs
/// the existing suite never runs; `max_mn` / `max_ncap` bound the cost (Ristretto legs use smaller bounds).
pub fn lattice_systematic(max_mn: usize, max_ncap: usize, full: bool) -> Vec<Cfg> {
    let mut v = BTreeSet::new();
    let ms = [1usize, 2, 4, 8, 16, 32];
    if full {
        for &n in &BITS {
            for &m in &ms {
                let mut cap = m;
                while cap <= 64 {
                    for ext in 1..=6 {
                        if n * m <= max_mn && n * cap <= max_ncap {
                            v.insert(Cfg::new(n, m, cap, ext));
                        }
                    }
                    cap *= 2;
                }
            }
        }
    } else {
        // every (n, m) pair once with rotating ext and capacity slack
        let mut k = 0usize;
        for &n in &BITS {
            for &m in &ms {
                if n * m > max_mn {
                    continue;
                }
                let ext = 1 + (k % 6);
                let slack = [1usize, 2, 4, 1, 8][k % 5];
                let mut cap = m * slack;
                while cap > m && n * cap > max_ncap {
                    cap /= 2;
                }
                if cap <= 64 && n * cap <= max_ncap {
                    v.insert(Cfg::new(n, m, cap, ext));
                }
                k += 1;
            }
        }
        // every ext at the corners
        for ext in 1..=6 {
            for &(n, m, cap) in &[(1usize, 1usize, 1usize), (1, 2, 2), (2, 1, 4), (64, 1, 1), (8, 8, 8), (4, 16, 32), (16, 2, 2)] {
                if n * m <= max_mn && n * cap <= max_ncap {
                    v.insert(Cfg::new(n, m, cap, ext));
                }
            }
        }
    }
    v.into_iter().collect()
}

/// Random part of the lattice, driven by the run seed
pub fn lattice_random(rng: &mut impl RngCore, count: usize, max_mn: usize, max_ncap: usize) -> Vec<Cfg> {
    let mut v = vec![];
    let mut guard = 0;
    while v.len() < count && guard < count * 200 {
        guard += 1;
        let n = BITS[(rng.next_u32() % 7) as usize];
        let m = 1usize << (rng.next_u32() % 6);
        let cap = m << (rng.next_u32() % 4);
        let ext = 1 + (rng.next_u32() % 6) as usize;
        if cap <= 64 && n * m <= max_mn && n * cap <= max_ncap {
            v.push(Cfg::new(n, m, cap, ext));
        }
    }
    v
}

pub fn rand_scalar(rng: &mut impl RngCore) -> Scalar {
    let mut b = [0u8; 64];
    loop {
        rng.fill_bytes(&mut b);
        let s = Scalar::from_bytes_mod_order_wide(&b);
        if s != Scalar::ZERO {
            return s;
        }
    }
}

pub fn wide(b: &[u8]) -> Scalar {
    let mut a = [0u8; 64];
    a.copy_from_slice(&b[..64]);
    Scalar::from_bytes_mod_order_wide(&a)
}

/// Which way a value is chosen inside [promise, 2^n)
#[derive(Clone, Copy, Debug, PartialEq, Eq, Hash)]
pub enum ValueClass {
    Zero,
    One,
    Max,
    HighBit,
    RandomLow,
    RandomHigh,
}

pub const VALUE_CLASSES: [ValueClass; 6] =
    [ValueClass::Zero, ValueClass::One, ValueClass::Max, ValueClass::HighBit, ValueClass::RandomLow, ValueClass::RandomHigh];

pub fn pick_value(class: ValueClass, n: usize, rng: &mut impl RngCore) -> u64 {
    let max = if n >= 64 { u64::MAX } else { (1u64 << n) - 1 };
    let half = 1u64 << (n - 1);
    match class {
        ValueClass::Zero => 0,
        ValueClass::One => 1.min(max),
        ValueClass::Max => max,
        ValueClass::HighBit => half,
        ValueClass::RandomLow => rng.next_u64() % half.max(1),
        ValueClass::RandomHigh => half + rng.next_u64() % half.max(1),
    }
}

#[derive(Clone, Copy, Debug, PartialEq, Eq, Hash)]
pub enum PromiseClass {
    AllNone,
    AllZero,
    EqualValue,
    Third,
    Mixed,
}

pub const PROMISE_CLASSES: [PromiseClass; 5] =
    [PromiseClass::AllNone, PromiseClass::AllZero, PromiseClass::EqualValue, PromiseClass::Third, PromiseClass::Mixed];

pub fn pick_promise(class: PromiseClass, j: usize, v: u64, rng: &mut impl RngCore) -> Option<u64> {
    match class {
        PromiseClass::AllNone => None,
        PromiseClass::AllZero => Some(0),
        PromiseClass::EqualValue => Some(v),
        PromiseClass::Third => Some(v / 3),
        PromiseClass::Mixed => match (j + (rng.next_u32() % 2) as usize) % 4 {
            0 => None,
            1 => Some(v),
            2 => Some(v / 3),
            _ => Some(if v > 0 { rng.next_u64() % (v as u128 + 1).min(u64::MAX as u128) as u64 } else { 0 }),
        },
    }
}

// ------------------------------------------------------------------------------------------------
// Guard-page placement of untrusted input ("electric fence"): the bytes handed to the library end exactly at
// (or start exactly after) an inaccessible page, so that a read or write outside the slice is a fault in every
// build, not only under AddressSanitizer or Miri. Linux x86-64 / aarch64 constants.
// ------------------------------------------------------------------------------------------------

extern "C" {
    fn mmap(addr: *mut u8, len: usize, prot: i32, flags: i32, fd: i32, off: i64) -> *mut u8;
    fn mprotect(addr: *mut u8, len: usize, prot: i32) -> i32;
    fn munmap(addr: *mut u8, len: usize) -> i32;
}

const PAGE: usize = 4096;

pub struct Guarded {
    base: *mut u8,
    total: usize,
    start: *mut u8,
    len: usize,
}

impl Guarded {
    /// `bytes` copied so that the slice is followed (`at_end`) or preceded (`!at_end`) by an inaccessible page
    pub fn new(bytes: &[u8], at_end: bool) -> Option<Guarded> {
        if cfg!(miri) {
            return None;
        }
        let data_pages = (bytes.len() + PAGE - 1) / PAGE + 1;
        let total = (data_pages + 2) * PAGE;
        unsafe {
            let base = mmap(std::ptr::null_mut(), total, 3, 0x22, -1, 0);
            if base.is_null() || base as usize == usize::MAX {
                return None;
            }
            // first and last page inaccessible
            if mprotect(base, PAGE, 0) != 0 || mprotect(base.add(total - PAGE), PAGE, 0) != 0 {
                munmap(base, total);
                return None;
            }
            let start = if at_end { base.add(total - PAGE - bytes.len()) } else { base.add(PAGE) };
            std::ptr::copy_nonoverlapping(bytes.as_ptr(), start, bytes.len());
            Some(Guarded { base, total, start, len: bytes.len() })
        }
    }

    pub fn slice(&self) -> &[u8] {
        unsafe { std::slice::from_raw_parts(self.start, self.len) }
    }
}

impl Drop for Guarded {
    fn drop(&mut self) {
        unsafe {
            munmap(self.base, self.total);
        }
    }
}

