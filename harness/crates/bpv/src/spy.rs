//! I4 — `SpyAlloc`: a global allocator that inspects every block the program releases.
//!
//! When armed it scans each block passed to `dealloc`, and the old block of every `realloc`
//! (`realloc` is implemented as alloc + copy + scan + free so that a moved-from block is always seen:
//! any conforming allocator may move), for a table of registered byte patterns. After scanning it
//! zero-fills the block, so the stale bytes of one un-wiped free cannot resurface in a later
//! uninitialised allocation and be reported a second time at an unrelated site.
//!
//! It also tracks live bytes, the peak, and the largest single request (used by C16), and can fail
//! requests above a cap by returning null (which makes `Vec` call `handle_alloc_error` -> abort; only
//! used in sandboxed children).
//!
//! All state is lock-free statics; the scanner allocates nothing.
#![allow(dead_code)]

use std::{
    alloc::{GlobalAlloc, Layout, System},
    sync::atomic::{AtomicBool, AtomicU8, AtomicUsize, Ordering::SeqCst},
};

pub const MAX_PATTERNS: usize = 512;
pub const KINDS: usize = 8;
pub const KIND_VALUE: u8 = 0;
pub const KIND_BLINDING: u8 = 1;
pub const KIND_SEED: u8 = 2;
pub const KIND_MASK: u8 = 3;
pub const KIND_NONCE: u8 = 4; // diagnostic only
pub const KIND_CANARY: u8 = 5; // self-test

#[derive(Clone, Copy)]
struct Pat {
    bytes: [u8; 32],
    len: usize,
    kind: u8,
}

static mut PATS: [Pat; MAX_PATTERNS] = [Pat { bytes: [0; 32], len: 0, kind: 0 }; MAX_PATTERNS];
static NPATS: AtomicUsize = AtomicUsize::new(0);
static ARMED: AtomicBool = AtomicBool::new(false);
static ZERO_ON_FREE: AtomicBool = AtomicBool::new(true);
static WIPE_ALWAYS: AtomicBool = AtomicBool::new(false);

static FREES: AtomicUsize = AtomicUsize::new(0);
static BYTES_SCANNED: AtomicUsize = AtomicUsize::new(0);
static HITS: [AtomicUsize; KINDS] = [const { AtomicUsize::new(0) }; KINDS];
// a few hit records: (kind, block size, offset)
const MAX_RECORDS: usize = 64;
static REC_KIND: [AtomicU8; MAX_RECORDS] = [const { AtomicU8::new(0) }; MAX_RECORDS];
static REC_SIZE: [AtomicUsize; MAX_RECORDS] = [const { AtomicUsize::new(0) }; MAX_RECORDS];
static REC_OFF: [AtomicUsize; MAX_RECORDS] = [const { AtomicUsize::new(0) }; MAX_RECORDS];
static NREC: AtomicUsize = AtomicUsize::new(0);

static TRACK: AtomicBool = AtomicBool::new(false);
static LIVE: AtomicUsize = AtomicUsize::new(0);
static PEAK: AtomicUsize = AtomicUsize::new(0);
static LARGEST: AtomicUsize = AtomicUsize::new(0);
static ALLOCS: AtomicUsize = AtomicUsize::new(0);
static CAP: AtomicUsize = AtomicUsize::new(usize::MAX);
static CAP_HIT: AtomicBool = AtomicBool::new(false);

pub struct SpyAlloc;

#[inline]
unsafe fn scan_and_wipe(p: *mut u8, n: usize) {
    if !ARMED.load(SeqCst) {
        // leak-detection processes wipe every released block, armed or not, so that bytes the harness itself
        // released earlier cannot resurface in the uninitialised slack of a library buffer
        if WIPE_ALWAYS.load(SeqCst) {
            std::ptr::write_bytes(p, 0, n);
        }
        return;
    }
    FREES.fetch_add(1, SeqCst);
    BYTES_SCANNED.fetch_add(n, SeqCst);
    let s = std::slice::from_raw_parts(p, n);
    let np = NPATS.load(SeqCst).min(MAX_PATTERNS);
    #[allow(static_mut_refs)]
    let pats = &PATS[..np];
    if n >= 8 {
        for pat in pats {
            let len = pat.len;
            if len == 0 || n < len {
                continue;
            }
            let needle = &pat.bytes[..len];
            let first = needle[0];
            let mut off = 0usize;
            while off + len <= n {
                if s[off] == first && &s[off..off + len] == needle {
                    HITS[pat.kind as usize % KINDS].fetch_add(1, SeqCst);
                    let r = NREC.fetch_add(1, SeqCst);
                    if r < MAX_RECORDS {
                        REC_KIND[r].store(pat.kind, SeqCst);
                        REC_SIZE[r].store(n, SeqCst);
                        REC_OFF[r].store(off, SeqCst);
                    }
                    break;
                }
                off += 1;
            }
        }
    }
    if ZERO_ON_FREE.load(SeqCst) {
        std::ptr::write_bytes(p, 0, n);
    }
}

#[inline]
fn note_alloc(size: usize) -> bool {
    if !TRACK.load(SeqCst) {
        return true;
    }
    ALLOCS.fetch_add(1, SeqCst);
    LARGEST.fetch_max(size, SeqCst);
    if size > CAP.load(SeqCst) {
        CAP_HIT.store(true, SeqCst);
        return false;
    }
    let live = LIVE.fetch_add(size, SeqCst) + size;
    PEAK.fetch_max(live, SeqCst);
    true
}

#[inline]
fn note_free(size: usize) {
    if TRACK.load(SeqCst) {
        // saturating: blocks allocated before tracking started may be freed now
        let _ = LIVE.fetch_update(SeqCst, SeqCst, |v| Some(v.saturating_sub(size)));
    }
}

/// Every block carries a red zone of `RZ` bytes behind the part handed to the program; it is checked when the block is
/// released or resized. A write past the end of a heap block (by up to `RZ` bytes) is therefore seen in every build,
/// not only under AddressSanitizer.
const RZ: usize = 32;
const RZ_BYTE: u8 = 0xC5;
static OVERRUNS: AtomicUsize = AtomicUsize::new(0);
static OVERRUN_SIZE: AtomicUsize = AtomicUsize::new(0);

#[inline]
fn padded(l: Layout) -> Option<Layout> {
    Layout::from_size_align(l.size().checked_add(RZ)?, l.align()).ok()
}

#[inline]
unsafe fn paint(p: *mut u8, size: usize) {
    std::ptr::write_bytes(p.add(size), RZ_BYTE, RZ);
}

#[inline]
unsafe fn inspect(p: *mut u8, size: usize) {
    let z = std::slice::from_raw_parts(p.add(size), RZ);
    if z.iter().any(|b| *b != RZ_BYTE) {
        OVERRUNS.fetch_add(1, SeqCst);
        OVERRUN_SIZE.store(size, SeqCst);
    }
}

unsafe impl GlobalAlloc for SpyAlloc {
    unsafe fn alloc(&self, l: Layout) -> *mut u8 {
        let Some(pl) = padded(l) else { return std::ptr::null_mut() };
        if !note_alloc(l.size()) {
            return std::ptr::null_mut();
        }
        let p = System.alloc(pl);
        if !p.is_null() {
            paint(p, l.size());
        }
        p
    }

    unsafe fn alloc_zeroed(&self, l: Layout) -> *mut u8 {
        let Some(pl) = padded(l) else { return std::ptr::null_mut() };
        if !note_alloc(l.size()) {
            return std::ptr::null_mut();
        }
        let p = System.alloc_zeroed(pl);
        if !p.is_null() {
            paint(p, l.size());
        }
        p
    }

    unsafe fn dealloc(&self, p: *mut u8, l: Layout) {
        inspect(p, l.size());
        scan_and_wipe(p, l.size());
        note_free(l.size());
        System.dealloc(p, Layout::from_size_align_unchecked(l.size() + RZ, l.align()))
    }

    unsafe fn realloc(&self, p: *mut u8, l: Layout, ns: usize) -> *mut u8 {
        let Some(npl) = Layout::from_size_align(ns.checked_add(RZ).unwrap_or(usize::MAX), l.align()).ok() else { return std::ptr::null_mut() };
        inspect(p, l.size());
        let opl = Layout::from_size_align_unchecked(l.size() + RZ, l.align());
        if !ARMED.load(SeqCst) && !WIPE_ALWAYS.load(SeqCst) {
            if !note_alloc(ns) {
                return std::ptr::null_mut();
            }
            note_free(l.size());
            let np = System.realloc(p, opl, npl.size());
            if !np.is_null() {
                paint(np, ns);
            }
            return np;
        }
        if !note_alloc(ns) {
            return std::ptr::null_mut();
        }
        let np = System.alloc(npl);
        if !np.is_null() {
            std::ptr::copy_nonoverlapping(p, np, l.size().min(ns));
            paint(np, ns);
            scan_and_wipe(p, l.size());
            note_free(l.size());
            System.dealloc(p, opl);
        }
        np
    }
}

/// Number of released blocks whose red zone had been written to since the last call (and the size of the last one)
pub fn take_overruns() -> (usize, usize) {
    (OVERRUNS.swap(0, SeqCst), OVERRUN_SIZE.load(SeqCst))
}

pub fn clear_patterns() {
    NPATS.store(0, SeqCst);
}

/// Register a byte pattern (8..=32 bytes). Must not be called while armed.
pub fn add_pattern(b: &[u8], kind: u8) {
    assert!(b.len() >= 8 && b.len() <= 32);
    assert!(!ARMED.load(SeqCst));
    let i = NPATS.load(SeqCst);
    assert!(i < MAX_PATTERNS, "too many patterns");
    let mut a = [0u8; 32];
    a[..b.len()].copy_from_slice(b);
    unsafe {
        #[allow(static_mut_refs)]
        {
            PATS[i] = Pat { bytes: a, len: b.len(), kind };
        }
    }
    NPATS.store(i + 1, SeqCst);
}

pub fn pattern_count() -> usize {
    NPATS.load(SeqCst)
}

pub fn arm() {
    ARMED.store(true, SeqCst);
}

pub fn set_wipe_always(on: bool) {
    WIPE_ALWAYS.store(on, SeqCst);
}

pub fn disarm() {
    ARMED.store(false, SeqCst);
}

#[derive(Clone, Debug, Default)]
pub struct ScanReport {
    pub frees: usize,
    pub bytes: usize,
    pub hits: [usize; KINDS],
    /// (kind, block size, offset) of the first few hits
    pub records: Vec<(u8, usize, usize)>,
}

/// Take and reset the scan counters
pub fn take_report() -> ScanReport {
    let mut r = ScanReport { frees: FREES.swap(0, SeqCst), bytes: BYTES_SCANNED.swap(0, SeqCst), ..Default::default() };
    for k in 0..KINDS {
        r.hits[k] = HITS[k].swap(0, SeqCst);
    }
    let n = NREC.swap(0, SeqCst).min(MAX_RECORDS);
    for i in 0..n {
        r.records.push((REC_KIND[i].load(SeqCst), REC_SIZE[i].load(SeqCst), REC_OFF[i].load(SeqCst)));
    }
    r
}

#[derive(Clone, Debug, Default)]
pub struct MemReport {
    pub allocs: usize,
    pub peak: usize,
    pub largest: usize,
    pub cap_hit: bool,
}

pub fn track_start(cap: usize) {
    LIVE.store(0, SeqCst);
    PEAK.store(0, SeqCst);
    LARGEST.store(0, SeqCst);
    ALLOCS.store(0, SeqCst);
    CAP.store(cap, SeqCst);
    CAP_HIT.store(false, SeqCst);
    TRACK.store(true, SeqCst);
}

pub fn track_stop() -> MemReport {
    TRACK.store(false, SeqCst);
    CAP.store(usize::MAX, SeqCst);
    MemReport { allocs: ALLOCS.load(SeqCst), peak: PEAK.load(SeqCst), largest: LARGEST.load(SeqCst), cap_hit: CAP_HIT.load(SeqCst) }
}

/// Whether this binary was built with the spy allocator installed
pub fn installed() -> bool {
    cfg!(feature = "spy")
}
