//! Group-specific glue for the two groups the library is instantiated over.
use curve25519_dalek::{ristretto::RistrettoPoint, scalar::Scalar};
use rand_core::RngCore;
use tari_bulletproofs_plus::{
    generators::pedersen_gens::ExtensionDegree,
    protocols::curve_point_protocol::CurvePointProtocol,
    ristretto,
    traits::Compressable,
    PedersenGens,
};

use crate::{
    common::{rand_scalar, Tier},
    fm::{self, FmPoint},
};

/// Summary of the verifier's final multiscalar multiplication (only observable over FmPoint)
#[derive(Clone, Debug)]
pub struct FinalMsm {
    pub residual_nnz: usize,
    pub static_len: usize,
    pub table_len: usize,
    pub calls: usize,
}

pub trait Gx: Sized + Compressable {
    const NAME: &'static str;
    const IS_FM: bool;
    fn pedersen(ext: usize) -> PedersenGens<Self>;
    /// a valid group element unrelated to anything else
    fn random_point(rng: &mut dyn RngCore) -> Self;
    /// 32 bytes that do not decode to a group element
    fn undecodable() -> [u8; 32];
    /// forget per-case global state
    fn case_reset();
    fn probe_arm();
    fn probe_take() -> Option<FinalMsm>;
    /// take the probe log and return the batch factor of each proof, identified by its B point (free module only)
    fn probe_take_weights(_bs: &[Self]) -> Option<Vec<Scalar>> {
        None
    }
    /// (max bits*aggregation, max bits*capacity) affordable per case
    fn bounds(tier: &Tier) -> (usize, usize);
}

impl Gx for FmPoint {
    const IS_FM: bool = true;
    const NAME: &'static str = "FmPoint";

    fn pedersen(ext: usize) -> PedersenGens<Self> {
        let h = FmPoint::hash_from_bytes_sha3_512(b"FM_VALUE_GENERATOR");
        let g: Vec<FmPoint> =
            (1..=ext).map(|k| FmPoint::hash_from_bytes_sha3_512(format!("FM_MASKING_BASEPOINT_{k}").as_bytes())).collect();
        PedersenGens {
            h_base_compressed: h.compress(),
            h_base: h,
            g_base_compressed_vec: g.iter().map(|x| x.compress()).collect(),
            g_base_vec: g,
            extension_degree: ExtensionDegree::try_from(ext).expect("degree"),
        }
    }

    fn random_point(rng: &mut dyn RngCore) -> Self {
        let mut r = rng;
        FmPoint::fresh_symbol().scaled(&rand_scalar(&mut r))
    }

    fn undecodable() -> [u8; 32] {
        [0xEE; 32]
    }

    fn case_reset() {
        fm::reset_registry();
    }

    fn probe_arm() {
        fm::arm();
    }

    fn probe_take() -> Option<FinalMsm> {
        let log = fm::take();
        let calls = log.msm.len();
        log.msm.last().map(|c| FinalMsm {
            residual_nnz: c.result.nnz(),
            static_len: c.static_scalars.len(),
            table_len: c.table_len,
            calls,
        })
    }

    fn probe_take_weights(bs: &[Self]) -> Option<Vec<Scalar>> {
        let log = fm::take();
        let call = log.msm.last()?;
        bs.iter()
            .map(|b| {
                let pairs: Vec<_> = call.dynamic.iter().filter(|(_, p)| p == b).collect();
                if pairs.len() == 1 {
                    Some(-pairs[0].0)
                } else {
                    None
                }
            })
            .collect()
    }

    fn bounds(tier: &Tier) -> (usize, usize) {
        match tier {
            Tier::Quick => (2048, 4096),
            Tier::Thorough => (2048, 4096),
        }
    }
}

impl Gx for RistrettoPoint {
    const IS_FM: bool = false;
    const NAME: &'static str = "Ristretto";

    fn pedersen(ext: usize) -> PedersenGens<Self> {
        ristretto::create_pedersen_gens_with_extension_degree(ExtensionDegree::try_from(ext).expect("degree"))
    }

    fn random_point(rng: &mut dyn RngCore) -> Self {
        let mut b = [0u8; 64];
        rng.fill_bytes(&mut b);
        RistrettoPoint::from_uniform_bytes(&b)
    }

    fn undecodable() -> [u8; 32] {
        [0xFF; 32]
    }

    fn case_reset() {}

    fn probe_arm() {}

    fn probe_take() -> Option<FinalMsm> {
        None
    }

    fn bounds(tier: &Tier) -> (usize, usize) {
        match tier {
            Tier::Quick => (256, 512),
            Tier::Thorough => (2048, 4096),
        }
    }
}

#[allow(dead_code)]
pub fn scalar_is_canonical_le(b: &[u8; 32]) -> bool {
    Option::<Scalar>::from(Scalar::from_canonical_bytes(*b)).is_some()
}
