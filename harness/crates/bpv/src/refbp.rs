//! I3 — `refbp`: an independent, unoptimised reference prover and verifier for Bulletproofs+.
//!
//! Written from the paper (Chung, Han, Ju, Kim, Seo: Fig. 1 zk-WIP, Fig. 3 range proof, aggregation)
//! plus the two documented Tari extensions (extended commitments with d blinding generators;
//! minimum-value promise = commitment shifted by promise*H). Deliberately naive: explicit
//! round-by-round folding, constants by plain loops, no recurrences, closed forms, batching, padding.
//! It shares no code with the library; the trusted base is curve25519-dalek (Scalar, Ristretto,
//! hash-to-group), merlin (STROBE), sha3 and blake2.
#![allow(dead_code, clippy::too_many_arguments, clippy::many_single_char_names)]

use blake2::Blake2bMac512;
use curve25519_dalek::{constants::RISTRETTO_BASEPOINT_POINT, ristretto::RistrettoPoint, scalar::Scalar, traits::Identity};
use digest::{Digest, ExtendableOutput, FixedOutput, Update, XofReader};
use merlin::Transcript;
use tari_bulletproofs_plus::traits::{Compressable, FixedBytesRepr, FromUniformBytes};

use crate::fm::FmPoint;

/// The few group operations the reference needs
pub trait RefGroup: Clone + PartialEq + core::fmt::Debug {
    fn zero() -> Self;
    fn plus(&self, o: &Self) -> Self;
    fn times(&self, s: &Scalar) -> Self;
    fn enc(&self) -> [u8; 32];
    fn from_uniform(b: &[u8; 64]) -> Self;
    fn is_zero(&self) -> bool {
        *self == Self::zero()
    }
}

impl RefGroup for RistrettoPoint {
    fn zero() -> Self {
        RistrettoPoint::identity()
    }

    fn plus(&self, o: &Self) -> Self {
        self + o
    }

    fn times(&self, s: &Scalar) -> Self {
        self * s
    }

    fn enc(&self) -> [u8; 32] {
        self.compress().to_bytes()
    }

    fn from_uniform(b: &[u8; 64]) -> Self {
        RistrettoPoint::from_uniform_bytes(b)
    }
}

impl RefGroup for FmPoint {
    fn zero() -> Self {
        FmPoint::default()
    }

    fn plus(&self, o: &Self) -> Self {
        let mut r = self.clone();
        r.axpy(&Scalar::ONE, o);
        r
    }

    fn times(&self, s: &Scalar) -> Self {
        self.scaled(s)
    }

    fn enc(&self) -> [u8; 32] {
        *Compressable::compress(self).as_fixed_bytes()
    }

    fn from_uniform(b: &[u8; 64]) -> Self {
        <FmPoint as FromUniformBytes>::from_uniform_bytes(b)
    }
}

// ------------------------------------------------------------------------------------------------
// Generators, from the documentation
// ------------------------------------------------------------------------------------------------

/// Generator `index` .. of party `party` on the 'G' or 'H' chain:
/// SHAKE256("GeneratorsChain" || chain || LE32(party)) read in 64-byte blocks, each hashed to the group
pub fn ref_chain<G: RefGroup>(chain: u8, party: u32, count: usize) -> Vec<G> {
    let mut shake = sha3::Shake256::default();
    shake.update(b"GeneratorsChain");
    let mut label = vec![chain];
    label.extend_from_slice(&party.to_le_bytes());
    shake.update(&label);
    let mut rd = shake.finalize_xof();
    (0..count)
        .map(|_| {
            let mut b = [0u8; 64];
            rd.read(&mut b);
            G::from_uniform(&b)
        })
        .collect()
}

/// The first `n * parties` vector generators in aggregated order (party-major)
pub fn ref_vector_gens<G: RefGroup>(n: usize, parties: usize) -> (Vec<G>, Vec<G>) {
    let mut gv = Vec::new();
    let mut hv = Vec::new();
    for j in 0..parties {
        gv.extend(ref_chain::<G>(b'G', j as u32, n));
        hv.extend(ref_chain::<G>(b'H', j as u32, n));
    }
    (gv, hv)
}

/// Ristretto value generator (the basepoint) and the k-th blinding generator
/// SHA3-512("RISTRETTO_MASKING_BASEPOINT_<k>") hashed to the group, k = 1..=6
pub fn ref_ristretto_pedersen(ext: usize) -> (RistrettoPoint, Vec<RistrettoPoint>) {
    let g = (1..=ext)
        .map(|k| {
            let mut h = sha3::Sha3_512::default();
            Digest::update(&mut h, format!("RISTRETTO_MASKING_BASEPOINT_{k}").as_bytes());
            let d: [u8; 64] = h.finalize().into();
            RistrettoPoint::from_uniform_bytes(&d)
        })
        .collect();
    (RISTRETTO_BASEPOINT_POINT, g)
}

/// Seed-derived nonce: Blake2b-512 MAC, key = 0x00 || seed || ['j' || LE32(j)] || ['k' || LE32(k)],
/// personalisation = label, no salt; output reduced mod l
pub fn ref_nonce(seed: &Scalar, label: &str, j: Option<usize>, k: Option<usize>) -> Scalar {
    let mut key = vec![0u8];
    key.extend_from_slice(seed.as_bytes());
    if let Some(j) = j {
        key.push(b'j');
        key.extend_from_slice(&(j as u32).to_le_bytes());
    }
    if let Some(k) = k {
        key.push(b'k');
        key.extend_from_slice(&(k as u32).to_le_bytes());
    }
    let h = Blake2bMac512::new_with_salt_and_personal(&key, &[], label.as_bytes()).expect("blake2 params");
    let mut o = [0u8; 64];
    o.copy_from_slice(h.finalize_fixed().as_slice());
    Scalar::from_bytes_mod_order_wide(&o)
}

// ------------------------------------------------------------------------------------------------
// Statement / proof
// ------------------------------------------------------------------------------------------------

#[derive(Clone, Debug)]
pub struct RefStatement<G: RefGroup> {
    /// value generator
    pub h: G,
    /// blinding generators (extension degree = len)
    pub g: Vec<G>,
    /// vector generators, at least n*m of each
    pub gv: Vec<G>,
    pub hv: Vec<G>,
    /// bit length
    pub n: usize,
    pub commitments: Vec<G>,
    pub promises: Vec<Option<u64>>,
}

#[derive(Clone, Debug, PartialEq)]
pub struct RefProof<G: RefGroup> {
    pub a: G,
    pub a1: G,
    pub b: G,
    pub r1: Scalar,
    pub s1: Scalar,
    pub d1: Vec<Scalar>,
    pub l: Vec<G>,
    pub r: Vec<G>,
}

impl<G: RefGroup> RefProof<G> {
    /// Documented wire layout: degree byte, d1, A, A1, B, r1, s1, interleaved L/R
    pub fn to_bytes(&self) -> Vec<u8> {
        let mut b = vec![self.d1.len() as u8];
        for x in &self.d1 {
            b.extend_from_slice(x.as_bytes());
        }
        for x in [&self.a, &self.a1, &self.b] {
            b.extend_from_slice(&x.enc());
        }
        b.extend_from_slice(self.r1.as_bytes());
        b.extend_from_slice(self.s1.as_bytes());
        for (l, r) in self.l.iter().zip(&self.r) {
            b.extend_from_slice(&l.enc());
            b.extend_from_slice(&r.enc());
        }
        b
    }
}

#[derive(Clone, Debug)]
pub struct Challenges {
    pub y: Scalar,
    pub z: Scalar,
    pub rounds: Vec<Scalar>,
    pub e: Scalar,
}

fn chal(t: &mut Transcript, l: &'static [u8]) -> Scalar {
    let mut b = [0u8; 64];
    t.challenge_bytes(l, &mut b);
    Scalar::from_bytes_mod_order_wide(&b)
}

/// Absorb the statement (documented label order) into a copy of the caller's transcript
pub fn ref_transcript_start<G: RefGroup>(t0: &Transcript, st: &RefStatement<G>) -> Transcript {
    let mut t = t0.clone();
    t.append_message(b"dom-sep", b"Bulletproofs+ Range Proof");
    t.append_message(b"H", &st.h.enc());
    for x in &st.g {
        t.append_message(b"G", &x.enc());
    }
    t.append_u64(b"N", st.n as u64);
    t.append_u64(b"T", st.g.len() as u64);
    t.append_u64(b"M", st.commitments.len() as u64);
    for x in &st.commitments {
        t.append_message(b"Ci", &x.enc());
    }
    for x in &st.promises {
        t.append_u64(b"vi - minimum_value", x.unwrap_or(0));
    }
    t
}

/// Challenges from encoded proof points (works for undecodable points too)
pub fn ref_challenges_enc<G: RefGroup>(
    t0: &Transcript,
    st: &RefStatement<G>,
    a: &[u8; 32],
    lr: &[([u8; 32], [u8; 32])],
    a1: &[u8; 32],
    b: &[u8; 32],
) -> Challenges {
    let mut t = ref_transcript_start(t0, st);
    t.append_message(b"A", a);
    let y = chal(&mut t, b"y");
    let z = chal(&mut t, b"z");
    let mut rounds = vec![];
    for (l, r) in lr {
        t.append_message(b"L", l);
        t.append_message(b"R", r);
        rounds.push(chal(&mut t, b"e"));
    }
    t.append_message(b"A1", a1);
    t.append_message(b"B", b);
    let e = chal(&mut t, b"e");
    Challenges { y, z, rounds, e }
}

pub fn ref_challenges<G: RefGroup>(t0: &Transcript, st: &RefStatement<G>, p: &RefProof<G>) -> Challenges {
    let lr: Vec<_> = p.l.iter().zip(&p.r).map(|(l, r)| (l.enc(), r.enc())).collect();
    ref_challenges_enc(t0, st, &p.a.enc(), &lr, &p.a1.enc(), &p.b.enc())
}

fn pow(x: &Scalar, k: usize) -> Scalar {
    let mut r = Scalar::ONE;
    for _ in 0..k {
        r *= x;
    }
    r
}

/// d_{j*n+i} = z^{2(j+1)} * 2^i (radix is a parameter only so that dishonest provers can vary it)
fn d_vector(z: &Scalar, n: usize, m: usize, radix: u64) -> Vec<Scalar> {
    let mut d = vec![Scalar::ZERO; n * m];
    for j in 0..m {
        let mut tw = Scalar::ONE;
        for i in 0..n {
            d[j * n + i] = pow(z, 2 * (j + 1)) * tw;
            tw *= Scalar::from(radix);
        }
    }
    d
}

/// Why the reference refuses an input before evaluating the relation
#[derive(Clone, Debug, PartialEq)]
pub enum Shape {
    Ok,
    BadRounds,
    BadDegree,
    PromiseTooLarge,
    IdentityInTranscript,
    NotEnoughGenerators,
}

pub fn ref_shape<G: RefGroup>(st: &RefStatement<G>, p: &RefProof<G>) -> Shape {
    let m = st.commitments.len();
    let mn = st.n * m;
    if p.d1.len() != st.g.len() || st.g.is_empty() || st.g.len() > 6 {
        return Shape::BadDegree;
    }
    if p.l.len() != p.r.len() || p.l.len() >= 32 || (1usize << p.l.len()) != mn {
        return Shape::BadRounds;
    }
    if st.gv.len() < mn || st.hv.len() < mn {
        return Shape::NotEnoughGenerators;
    }
    for pr in st.promises.iter().flatten() {
        if st.n < 64 && (pr >> st.n) > 0 {
            return Shape::PromiseTooLarge;
        }
    }
    // points the protocol refuses to absorb when they are the identity
    if st.h.is_zero() || st.g.iter().any(|x| x.is_zero()) || p.a.is_zero() || p.a1.is_zero() || p.b.is_zero() {
        return Shape::IdentityInTranscript;
    }
    if p.l.iter().chain(&p.r).any(|x| x.is_zero()) {
        return Shape::IdentityInTranscript;
    }
    Shape::Ok
}

/// RHS - LHS of the final zk-WIP check, as a group element, with the reference's own challenges.
/// Requires `ref_shape == Ok`.
pub fn ref_residual<G: RefGroup>(t0: &Transcript, st: &RefStatement<G>, p: &RefProof<G>) -> (G, Challenges) {
    let ch = ref_challenges(t0, st, p);
    (ref_residual_with(st, p, &ch, 2), ch)
}

pub fn ref_residual_with<G: RefGroup>(st: &RefStatement<G>, p: &RefProof<G>, ch: &Challenges, radix: u64) -> G {
    let n = st.n;
    let m = st.commitments.len();
    let mn = n * m;
    let (y, z, e) = (ch.y, ch.z, ch.e);
    let d = d_vector(&z, n, m, radix);
    let mut sum_d = Scalar::ZERO;
    for x in &d {
        sum_d += x;
    }
    let mut sum_y = Scalar::ZERO;
    for i in 1..=mn {
        sum_y += pow(&y, i);
    }
    // A-hat = A - z*G_vec + (d o y^<- + z)*H_vec + y^{mn+1} * sum_j z^{2(j+1)} (V_j - p_j H) + zeta*H
    let mut ah = p.a.clone();
    for i in 0..mn {
        ah = ah.plus(&st.gv[i].times(&(-z)));
        ah = ah.plus(&st.hv[i].times(&(d[i] * pow(&y, mn - i) + z)));
    }
    for j in 0..m {
        let c = pow(&z, 2 * (j + 1)) * pow(&y, mn + 1);
        let shifted = st.commitments[j].plus(&st.h.times(&(-Scalar::from(st.promises[j].unwrap_or(0)))));
        ah = ah.plus(&shifted.times(&c));
    }
    let zeta = z * sum_y - z * pow(&y, mn + 1) * sum_d - z * z * sum_y;
    ah = ah.plus(&st.h.times(&zeta));
    // zk-WIP verifier, folding explicitly
    let mut pp = ah;
    let mut gg: Vec<G> = st.gv[..mn].to_vec();
    let mut hh: Vec<G> = st.hv[..mn].to_vec();
    let mut len = mn;
    for (j, ej) in ch.rounds.iter().enumerate() {
        len /= 2;
        let ei = ej.invert();
        let yn_inv = pow(&y, len).invert();
        pp = pp.plus(&p.l[j].times(&(ej * ej))).plus(&p.r[j].times(&(ei * ei)));
        let mut g2 = vec![];
        let mut h2 = vec![];
        for i in 0..len {
            g2.push(gg[i].times(&ei).plus(&gg[i + len].times(&(ej * yn_inv))));
            h2.push(hh[i].times(ej).plus(&hh[i + len].times(&ei)));
        }
        gg = g2;
        hh = h2;
    }
    assert_eq!(gg.len(), 1);
    // P^{e^2} A1^e B == g^{r1 e} h^{s1 e} H^{r1 y s1} G^{d1}
    let mut rhs = gg[0].times(&(p.r1 * e)).plus(&hh[0].times(&(p.s1 * e))).plus(&st.h.times(&(p.r1 * y * p.s1)));
    for (k, x) in st.g.iter().enumerate() {
        rhs = rhs.plus(&x.times(&p.d1[k]));
    }
    let lhs = pp.times(&(e * e)).plus(&p.a1.times(&e)).plus(&p.b);
    rhs.plus(&lhs.times(&-Scalar::ONE))
}

/// The reference verdict
pub fn ref_verify<G: RefGroup>(t0: &Transcript, st: &RefStatement<G>, p: &RefProof<G>) -> bool {
    if ref_shape(st, p) != Shape::Ok {
        return false;
    }
    let (res, ch) = ref_residual(t0, st, p);
    if ch.y == Scalar::ZERO || ch.z == Scalar::ZERO || ch.e == Scalar::ZERO || ch.rounds.iter().any(|c| *c == Scalar::ZERO)
    {
        return false;
    }
    res.is_zero()
}

// ------------------------------------------------------------------------------------------------
// Reference prover (can be driven dishonestly)
// ------------------------------------------------------------------------------------------------

/// How the reference prover deviates from the honest algorithm
#[derive(Clone, Debug, PartialEq)]
pub enum Cheat {
    Honest,
    /// use these a_L entries (as small integers) instead of the bit decomposition; a_R = a_L - 1
    Digits(Vec<u64>),
    /// use these a_L entries (arbitrary scalars); a_R = a_L - 1
    Scalars(Vec<Scalar>),
    /// decompose in this radix and use radix^i in the d vector, consistently
    Radix(u64),
}

pub struct RefWitness {
    pub values: Vec<u64>,
    pub blindings: Vec<Vec<Scalar>>,
}

/// Nonce supplier: (label, round j, generator index k) -> scalar. Labels: "alpha","dL","dR","d","eta","r","s"
pub type NonceFn<'a> = dyn FnMut(&str, Option<usize>, Option<usize>) -> Scalar + 'a;

pub fn ref_prove<G: RefGroup>(
    t0: &Transcript,
    st: &RefStatement<G>,
    w: &RefWitness,
    nonce: &mut NonceFn,
    cheat: &Cheat,
) -> RefProof<G> {
    let n = st.n;
    let m = st.commitments.len();
    let mn = n * m;
    let ext = st.g.len();
    let radix = if let Cheat::Radix(r) = cheat { *r } else { 2 };
    // digits
    let mut a_l: Vec<Scalar> = Vec::with_capacity(mn);
    match cheat {
        Cheat::Digits(d) => {
            assert_eq!(d.len(), mn);
            a_l.extend(d.iter().map(|x| Scalar::from(*x)));
        },
        Cheat::Scalars(d) => {
            assert_eq!(d.len(), mn);
            a_l.extend(d.iter().copied());
        },
        _ => {
            for j in 0..m {
                let mut v = (w.values[j] as u128).wrapping_sub(st.promises[j].unwrap_or(0) as u128) & (u64::MAX as u128);
                for _ in 0..n {
                    a_l.push(Scalar::from((v % radix as u128) as u64));
                    v /= radix as u128;
                }
            }
        },
    }
    let a_r: Vec<Scalar> = a_l.iter().map(|x| x - Scalar::ONE).collect();
    let mut alpha: Vec<Scalar> = (0..ext).map(|k| nonce("alpha", None, Some(k))).collect();
    // A = <a_L, G> + <a_R, H> + sum alpha_k G_k
    let mut a = G::zero();
    for i in 0..mn {
        a = a.plus(&st.gv[i].times(&a_l[i])).plus(&st.hv[i].times(&a_r[i]));
    }
    for k in 0..ext {
        a = a.plus(&st.g[k].times(&alpha[k]));
    }
    let mut t = ref_transcript_start(t0, st);
    t.append_message(b"A", &a.enc());
    let y = chal(&mut t, b"y");
    let z = chal(&mut t, b"z");
    let d = d_vector(&z, n, m, radix);
    let mut av: Vec<Scalar> = a_l.iter().map(|x| x - z).collect();
    let mut bv: Vec<Scalar> = (0..mn).map(|i| a_r[i] + d[i] * pow(&y, mn - i) + z).collect();
    for j in 0..m {
        for k in 0..ext {
            alpha[k] += pow(&z, 2 * (j + 1)) * w.blindings[j][k] * pow(&y, mn + 1);
        }
    }
    let mut gg: Vec<G> = st.gv[..mn].to_vec();
    let mut hh: Vec<G> = st.hv[..mn].to_vec();
    let mut ls = vec![];
    let mut rs = vec![];
    let mut len = mn;
    let mut round = 0usize;
    while len > 1 {
        len /= 2;
        let yn = pow(&y, len);
        let yn_inv = yn.invert();
        let d_l: Vec<Scalar> = (0..ext).map(|k| nonce("dL", Some(round), Some(k))).collect();
        let d_r: Vec<Scalar> = (0..ext).map(|k| nonce("dR", Some(round), Some(k))).collect();
        let mut c_l = Scalar::ZERO;
        let mut c_r = Scalar::ZERO;
        for i in 0..len {
            c_l += av[i] * pow(&y, i + 1) * bv[len + i];
            c_r += av[len + i] * yn * pow(&y, i + 1) * bv[i];
        }
        let mut l = st.h.times(&c_l);
        let mut r = st.h.times(&c_r);
        for k in 0..ext {
            l = l.plus(&st.g[k].times(&d_l[k]));
            r = r.plus(&st.g[k].times(&d_r[k]));
        }
        for i in 0..len {
            l = l.plus(&gg[len + i].times(&(av[i] * yn_inv))).plus(&hh[i].times(&bv[len + i]));
            r = r.plus(&gg[i].times(&(av[len + i] * yn))).plus(&hh[len + i].times(&bv[i]));
        }
        t.append_message(b"L", &l.enc());
        t.append_message(b"R", &r.enc());
        let e = chal(&mut t, b"e");
        let ei = e.invert();
        let mut g2 = vec![];
        let mut h2 = vec![];
        let mut a2 = vec![];
        let mut b2 = vec![];
        for i in 0..len {
            g2.push(gg[i].times(&ei).plus(&gg[len + i].times(&(e * yn_inv))));
            h2.push(hh[i].times(&e).plus(&hh[len + i].times(&ei)));
            a2.push(av[i] * e + av[len + i] * yn * ei);
            b2.push(bv[i] * ei + bv[len + i] * e);
        }
        gg = g2;
        hh = h2;
        av = a2;
        bv = b2;
        for k in 0..ext {
            alpha[k] += d_l[k] * e * e + d_r[k] * ei * ei;
        }
        ls.push(l);
        rs.push(r);
        round += 1;
    }
    let r = nonce("r", None, None);
    let s = nonce("s", None, None);
    let dd: Vec<Scalar> = (0..ext).map(|k| nonce("d", None, Some(k))).collect();
    let eta: Vec<Scalar> = (0..ext).map(|k| nonce("eta", None, Some(k))).collect();
    let mut a1 = gg[0].times(&r).plus(&hh[0].times(&s)).plus(&st.h.times(&(r * y * bv[0] + s * y * av[0])));
    let mut b = st.h.times(&(r * y * s));
    for k in 0..ext {
        a1 = a1.plus(&st.g[k].times(&dd[k]));
        b = b.plus(&st.g[k].times(&eta[k]));
    }
    t.append_message(b"A1", &a1.enc());
    t.append_message(b"B", &b.enc());
    let e = chal(&mut t, b"e");
    let r1 = r + av[0] * e;
    let s1 = s + bv[0] * e;
    let d1: Vec<Scalar> = (0..ext).map(|k| eta[k] + dd[k] * e + alpha[k] * e * e).collect();
    RefProof { a, a1, b, r1, s1, d1, l: ls, r: rs }
}

/// Reference mask recovery (documented algorithm): solve d1 for the blinding vector with seed nonces
pub fn ref_recover<G: RefGroup>(t0: &Transcript, st: &RefStatement<G>, p: &RefProof<G>, seed: &Scalar) -> Vec<Scalar> {
    let ch = ref_challenges(t0, st, p);
    let mn = st.n * st.commitments.len();
    (0..p.d1.len())
        .map(|k| {
            let mut x = (p.d1[k] - ref_nonce(seed, "eta", None, Some(k)) - ch.e * ref_nonce(seed, "d", None, Some(k))) *
                (ch.e * ch.e).invert();
            x -= ref_nonce(seed, "alpha", None, Some(k));
            for (j, ej) in ch.rounds.iter().enumerate() {
                x -= ej * ej * ref_nonce(seed, "dL", Some(j), Some(k));
                x -= (ej * ej).invert() * ref_nonce(seed, "dR", Some(j), Some(k));
            }
            x * (ch.z * ch.z * pow(&ch.y, mn + 1)).invert()
        })
        .collect()
}
