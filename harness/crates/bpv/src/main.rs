//! `bpv` — runtime monitors for tari_bulletproofs_plus. One sub-command per property:
//! `bpv C07 --tier quick --seed 1 --shard 3 --nshards 16 --out part.json [--leg name] [k=v ...]`.
//! Each invocation runs its share of the check's workload against the real library, lets the
//! monitors observe it, and writes what they observed as JSON. Exit status: 0 ran to completion
//! (violations, if any, are in the JSON), 3 usage error; anything else is a crash of the harness.

mod common;
mod fm;
mod gx;
mod refbp;
mod spy;

#[cfg(feature = "spy")]
#[global_allocator]
static GLOBAL: spy::SpyAlloc = spy::SpyAlloc;

/// The library instantiated over the free module
pub mod onfm {
    pub type P = crate::fm::FmPoint;
    include!("kit.rs");
    include!("gen/mod.rs");
}

/// The library instantiated over Ristretto
pub mod onris {
    pub type P = curve25519_dalek::ristretto::RistrettoPoint;
    include!("kit.rs");
    include!("gen/mod.rs");
}

mod checks;

use std::time::Instant;

use common::{Ctx, Report, Tier};

fn usage() -> ! {
    eprintln!("usage: bpv <C01..C20|selftest> [--tier quick|thorough] [--seed N] [--shard I --nshards N] [--out FILE] [--leg NAME] [--replay FILE] [k=v ...]");
    std::process::exit(3)
}

fn main() {
    let args: Vec<String> = std::env::args().skip(1).collect();
    if args.is_empty() {
        usage();
    }
    let mut ctx = Ctx {
        check: args[0].clone(),
        tier: Tier::Quick,
        seed: 1,
        shard: 0,
        nshards: 1,
        out: None,
        replay: None,
        leg: "all".to_string(),
        extra: vec![],
        started: Instant::now(),
        only: None,
    };
    let mut i = 1;
    while i < args.len() {
        let a = args[i].as_str();
        let mut val = || {
            i += 1;
            args.get(i).cloned().unwrap_or_else(|| usage())
        };
        match a {
            "--tier" => ctx.tier = if val() == "thorough" { Tier::Thorough } else { Tier::Quick },
            "--seed" => ctx.seed = val().parse().unwrap_or_else(|_| usage()),
            "--shard" => ctx.shard = val().parse().unwrap_or_else(|_| usage()),
            "--nshards" => ctx.nshards = val().parse().unwrap_or_else(|_| usage()),
            "--out" => ctx.out = Some(val()),
            "--leg" => ctx.leg = val(),
            "--replay" => ctx.replay = Some(val()),
            _ => ctx.extra.push(a.to_string()),
        }
        i += 1;
    }
    if let Some(path) = ctx.replay.clone() {
        // a replay file is the "replay" object of a violation: {"tier","seed","leg","case",...}
        let txt = std::fs::read_to_string(&path).unwrap_or_else(|e| {
            eprintln!("cannot read {path}: {e}");
            std::process::exit(3)
        });
        let v: serde_json::Value = serde_json::from_str(&txt).unwrap_or(serde_json::Value::Null);
        let r = if v.get("replay").is_some() { v["replay"].clone() } else { v };
        if let Some(t) = r["tier"].as_str() {
            ctx.tier = if t == "thorough" { Tier::Thorough } else { Tier::Quick };
        }
        if let Some(s) = r["seed"].as_u64() {
            ctx.seed = s;
        }
        if let Some(l) = r["leg"].as_str() {
            ctx.leg = l.to_string();
        }
        ctx.only = r["case"].as_u64();
        if let Some(x) = r["extra"].as_array() {
            ctx.extra.extend(x.iter().filter_map(|s| s.as_str().map(|s| s.to_string())));
        }
        ctx.shard = 0;
        ctx.nshards = 1;
    }
    let mut rep = Report::new(&ctx.check);
    checks::dispatch(&ctx, &mut rep);
    let js = rep.to_json(&ctx);
    match &ctx.out {
        Some(p) => std::fs::write(p, serde_json::to_vec(&js).unwrap()).expect("write part file"),
        None => println!("{}", serde_json::to_string_pretty(&js).unwrap()),
    }
}
