//! Writes golden vectors (JSON on stdout) using only the public API of the pinned library and pristine merlin.
use curve25519_dalek::scalar::Scalar;
use merlin::Transcript;
use rand_chacha::ChaCha12Rng;
use rand_core::{RngCore, SeedableRng};
use serde_json::{json, Value};
use sha3::{Digest, Sha3_256};
use tari_bulletproofs_plus::{
    commitment_opening::CommitmentOpening,
    generators::pedersen_gens::ExtensionDegree,
    protocols::scalar_protocol::ScalarProtocol,
    range_parameters::RangeParameters,
    range_proof::{RangeProof, VerifyAction},
    range_statement::RangeStatement,
    range_witness::RangeWitness,
    ristretto::{self, RistrettoRangeProof},
};

const LABELS: [&[u8]; 3] = [b"bpv-ctx-0", b"Tari golden vector", b""];

fn hex(b: &[u8]) -> String {
    b.iter().map(|x| format!("{x:02x}")).collect()
}

fn main() {
    let mut rng = ChaCha12Rng::seed_from_u64(0x0C19_60_1D);
    let mut vectors: Vec<Value> = vec![];
    // (bits, aggregation, capacity, degree, seeded)
    let mut cfgs: Vec<(usize, usize, usize, usize, bool)> = vec![];
    for (i, &n) in [1usize, 2, 4, 8, 16, 32, 64].iter().enumerate() {
        for ext in 1..=6usize {
            cfgs.push((n, 1, [1, 2, 4][(i + ext) % 3], ext, true));
        }
    }
    for &(n, m, cap, ext) in &[(1usize, 2usize, 2usize, 1usize), (2, 2, 4, 3), (4, 4, 4, 2), (8, 2, 2, 5), (16, 8, 8, 1), (64, 2, 2, 6), (64, 4, 8, 1), (32, 16, 16, 2), (2, 32, 32, 4), (64, 32, 32, 1), (8, 1, 1, 2), (64, 1, 2, 1)] {
        cfgs.push((n, m, cap, ext, false));
    }
    // degenerate-but-valid data (appended after the original 54 so that those keep their random streams):
    // special 1 = an identity commitment (value 0, all-zero mask) at position k % m, 2 = seed zero, 3 = seed one,
    // 5 = the last commitment repeats the first
    let first_special = cfgs.len();
    let specials: Vec<(usize, usize, usize, usize, bool, usize)> = vec![
        (8, 1, 1, 1, true, 1), (64, 4, 4, 1, false, 1), (64, 1, 1, 3, true, 1), (2, 2, 2, 6, false, 1),
        (32, 1, 1, 2, true, 2), (16, 1, 2, 3, true, 3), (8, 4, 4, 2, false, 5), (64, 2, 4, 1, false, 5),
    ];
    for &(n, m, cap, ext, seeded, _) in &specials {
        cfgs.push((n, m, cap, ext, seeded));
    }
    for (k, &(n, m, cap, ext, seeded)) in cfgs.iter().enumerate() {
        let special = if k >= first_special { specials[k - first_special].5 } else { 0 };
        let degree = ExtensionDegree::try_from(ext).unwrap();
        let pc = ristretto::create_pedersen_gens_with_extension_degree(degree);
        let prm = RangeParameters::init(n, cap, pc).unwrap();
        let maxv = if n >= 64 { u64::MAX } else { (1u64 << n) - 1 };
        let mut values = vec![];
        let mut blindings: Vec<Vec<Scalar>> = vec![];
        let mut promises = vec![];
        let mut commitments = vec![];
        for j in 0..m {
            let v = match (j + k) % 4 {
                0 => maxv,
                1 => 0,
                2 => rng.next_u64() & maxv,
                _ => maxv / 2 + 1,
            };
            let mut bl: Vec<Scalar> = (0..ext).map(|_| Scalar::random_not_zero(&mut rng)).collect();
            let mut v = v;
            let mut promise = match (j + k) % 3 {
                0 => None,
                1 => Some(v / 3),
                _ => Some(v),
            };
            if special == 1 && j == k % m {
                v = 0;
                bl = vec![Scalar::ZERO; ext];
                promise = None;
            }
            if special == 5 && j == m - 1 {
                v = values[0];
                bl = blindings[0].clone();
                promise = Some(v / 2);
            }
            promises.push(promise);
            commitments.push(prm.pc_gens().commit(&Scalar::from(v), &bl).unwrap());
            values.push(v);
            blindings.push(bl);
        }
        let seed = if seeded && m == 1 { Some(Scalar::random_not_zero(&mut rng)) } else { None };
        let seed = match special {
            2 => Some(Scalar::ZERO),
            3 => Some(Scalar::ONE),
            _ => seed,
        };
        let st = RangeStatement::init(prm.clone(), commitments.clone(), promises.clone(), seed).unwrap();
        let w = RangeWitness::init((0..m).map(|j| CommitmentOpening::new(values[j], blindings[j].clone())).collect()).unwrap();
        let label = k % LABELS.len();
        let extra: Vec<Vec<u8>> = (0..(k % 3)).map(|i| vec![i as u8; 5 + k % 11]).collect();
        let mk_t = || {
            let mut t = Transcript::new(LABELS[label]);
            for e in &extra {
                t.append_message(b"bpv-extra", e);
            }
            t
        };
        let prove_seed = rng.next_u64();
        let mut prng = ChaCha12Rng::seed_from_u64(prove_seed);
        let proof = RistrettoRangeProof::prove_with_rng(&mut mk_t(), &st, &w, &mut prng).unwrap();
        let masks = RangeProof::verify_batch(&mut [mk_t()], &[st.clone()], &[proof.clone()], VerifyAction::RecoverAndVerify).unwrap();
        let mask: Option<Vec<String>> = masks[0].as_ref().map(|m| m.blindings().unwrap().iter().map(|s| hex(s.as_bytes())).collect());
        vectors.push(json!({
            "bits": n, "aggregation": m, "capacity": cap, "ext": ext,
            "label": label, "extra": extra.iter().map(|e| hex(e)).collect::<Vec<_>>(),
            "values": values.iter().map(|v| v.to_string()).collect::<Vec<_>>(),
            "blindings": blindings.iter().map(|b| b.iter().map(|s| hex(s.as_bytes())).collect::<Vec<_>>()).collect::<Vec<_>>(),
            "promises": promises.iter().map(|p| p.map(|x| x.to_string())).collect::<Vec<_>>(),
            "seed": seed.map(|s| hex(s.as_bytes())),
            "commitments": commitments.iter().map(|c| hex(c.compress().as_bytes())).collect::<Vec<_>>(),
            "proof": hex(&proof.to_bytes()),
            "mask": mask,
        }));
    }
    // generator tables
    let mut gens: Vec<Value> = vec![];
    for &(n, cap) in &[(1usize, 1usize), (2, 4), (4, 2), (8, 8), (16, 1), (32, 16), (64, 1), (64, 32), (1, 32), (64, 64), (1, 512), (2, 1024), (4, 256)] {
        let pc = ristretto::create_pedersen_gens_with_extension_degree(ExtensionDegree::AddFiveBasePoints);
        let prm = RangeParameters::init(n, cap, pc).unwrap();
        let mut h = Sha3_256::new();
        let g: Vec<[u8; 32]> = prm.gi_base_iter().map(|p| p.compress().to_bytes()).collect();
        let hh: Vec<[u8; 32]> = prm.hi_base_iter().map(|p| p.compress().to_bytes()).collect();
        for x in g.iter().chain(hh.iter()) {
            h.update(x);
        }
        gens.push(json!({"bits": n, "capacity": cap, "count": g.len(), "digest": hex(&h.finalize()), "g_first": hex(&g[0]), "g_last": hex(&g[g.len() - 1]), "h_first": hex(&hh[0]), "h_last": hex(&hh[hh.len() - 1])}));
    }
    // known answers of the pristine merlin crate (pins the harness's event-logging copy to it)
    let merlin_kat = {
        struct Zero;
        impl rand_core::RngCore for Zero {
            fn next_u32(&mut self) -> u32 { 0 }
            fn next_u64(&mut self) -> u64 { 0 }
            fn fill_bytes(&mut self, d: &mut [u8]) { d.fill(0) }
            fn try_fill_bytes(&mut self, d: &mut [u8]) -> Result<(), rand_core::Error> { d.fill(0); Ok(()) }
        }
        impl rand_core::CryptoRng for Zero {}
        let mut t = Transcript::new(b"bpv-kat");
        t.append_message(b"a", &[1, 2, 3]);
        t.append_u64(b"n", 0x0102030405060708);
        let mut c1 = [0u8; 64];
        t.challenge_bytes(b"c1", &mut c1);
        let mut fork = t.clone();
        fork.append_message(b"b", &[7u8; 40]);
        let mut c2 = [0u8; 32];
        fork.challenge_bytes(b"c2", &mut c2);
        let mut rng = t.build_rng().rekey_with_witness_bytes(b"w", &[9u8; 40]).finalize(&mut Zero);
        let mut r1 = [0u8; 64];
        rng.fill_bytes(&mut r1);
        let mut r2 = [0u8; 8];
        rng.fill_bytes(&mut r2);
        json!({"c1": hex(&c1), "c2": hex(&c2), "r1": hex(&r1), "r2": hex(&r2)})
    };
    let pc = ristretto::create_pedersen_gens_with_extension_degree(ExtensionDegree::AddFiveBasePoints);
    let out = json!({
        "merlin_kat": merlin_kat,
        "source": "tari_bulletproofs_plus 0.4.0 at the pinned commit (before any fix: commit), pristine merlin 3.0.0",
        "labels": LABELS.iter().map(|l| String::from_utf8_lossy(l).to_string()).collect::<Vec<_>>(),
        "pedersen": {"h": hex(pc.h_base_compressed.as_bytes()), "g": pc.g_base_compressed_vec.iter().map(|p| hex(p.as_bytes())).collect::<Vec<_>>()},
        "generators": gens,
        "vectors": vectors,
    });
    println!("{}", serde_json::to_string_pretty(&out).unwrap());
}
